package syntax

import (
	"encoding/base64"
	"fmt"
	"math/rand/v2"
	"strings"

	"github.com/onflow/cadence/ast"
	"github.com/onflow/cadence/parser"

	"verif/harness/core"
)

// C38 — printing a parsed program and re-parsing it yields the same AST (positions and doc strings aside).

func init() {
	core.Register(&core.Prop{
		ID:    "C38",
		Level: "exploration",
		Rule: "sources = grammar-generated programs (every declaration / statement / expression / type form; plain, random-whitespace and commented renderings), " +
			"expression-focused declarations with random operator nesting, and the repository's .cdc files; only sources the real parser accepts are evaluated; " +
			"p1=Parse(src), s=p1.String(), p2=Parse(s), compare AST JSON without position keys and doc strings; distinct = stripped AST hash",
		Assumptions: []string{
			"the AST's own MarshalJSON is a faithful, complete rendering of the tree (identifiers, literal values and bases, operators, types, access, conditions)",
			"position-bearing keys are exactly those named Range or ending in Pos/Position (monitor unstripped_positions must stay 0); DocString keys hold comments and are ignored",
			"Program.String() is the canonical pretty print",
			"a linear-time reflective comparison of the two ASTs is used as a pre-check; every difference it finds is confirmed by the JSON oracle, and 1/16 of its equal verdicts are re-checked with the JSON oracle (monitor reflect_json_disagree must stay 0)",
		},
		NumCases: func(tier string) int {
			if tier == "thorough" {
				return 1200
			}
			return 64
		},
		Run: runC38,
		Floors: map[string]int64{
			"accepted":            15000,
			"gen_accept_pct":      50,
			"roundtrip_equal":     10000,
			"corpus_accepted":     60,
			"expr_focus_accepted": 3000,
			"feat_kinds_accepted": 150,
		},
		Finalize: func(a *core.Agg) {
			if g := a.Counters["gen_total"]; g > 0 {
				a.Counters["gen_accept_pct"] = a.Counters["gen_accepted"] * 100 / g
			}
			n := int64(0)
			for k, v := range a.Counters {
				if strings.HasPrefix(k, "featacc:") && v > 0 {
					n++
				}
			}
			a.Counters["feat_kinds_accepted"] = n
			if a.Counters["reflect_json_disagree"] > 0 {
				a.Inconclusive = append(a.Inconclusive, "the reflective AST pre-check and the AST JSON oracle disagree on some program")
			}
			if a.Counters["unstripped_positions"] > 0 {
				a.Inconclusive = append(a.Inconclusive, "position-shaped objects survive stripping: a position key has a new name")
			}
			finalizeC38(a)
		},
	})
}

// reflectJSONDisagree counts verdict disagreements between the reflective pre-check and the JSON oracle.
var reflectJSONDisagree int
var reflectJSONExample string

type c38Finding struct {
	Key    string
	Msg    string
	Detail map[string]any
}

// evalC38 runs the round trip on src and, on a defect, localises it to the smallest subtree that does
// not survive print -> parse (the key names that root cause).
func evalC38(src []byte, unstripped *int) (accepted bool, f *c38Finding, fixedPoint bool, hash string) {
	accepted, f, fixedPoint, hash = evalC38Raw(src, unstripped)
	if f == nil || !(strings.HasPrefix(f.Key, "ast-diff:") || strings.HasPrefix(f.Key, "reparse-fail:")) {
		return
	}
	p1, err, pi := parseProg(src)
	if err != nil || pi != nil {
		return
	}
	loc := localize(p1, src)
	if loc == nil {
		return
	}
	d := map[string]any{}
	for k, v := range f.Detail {
		d[k] = v
	}
	d["symptom"] = f.Key
	d["smallest_failing_node"] = loc.Node
	d["node_source"] = clipS(loc.Fragment, 600)
	d["node_printed"] = clipS(loc.Printed, 600)
	d["localisation"] = loc.Detail
	// the fragment alone, as a program: does it reproduce?
	if acc2, f2, _, _ := evalC38Raw([]byte(loc.Wrapped), nil); acc2 && f2 != nil {
		d["minimal_source"] = loc.Wrapped
		d["minimal_source_symptom"] = f2.Key
		if pr, ok := f2.Detail["printed"]; ok {
			d["minimal_printed"] = pr
		}
	}
	f = &c38Finding{Key: loc.Key, Msg: fmt.Sprintf("print -> parse does not preserve a %s: %s", loc.Node, loc.Detail), Detail: d}
	return
}

// evalC38Raw runs the round trip on src. accepted=false when the parser rejects src.
func evalC38Raw(src []byte, unstripped *int) (accepted bool, f *c38Finding, fixedPoint bool, hash string) {
	src = src[:len(src):len(src)]
	p1, err, pi := parseProg(src)
	if pi != nil || err != nil {
		return false, nil, false, ""
	}
	accepted = true
	var s string
	if pi := guard(func() { s = p1.String() }); pi != nil {
		return true, &c38Finding{"print-panic:" + pi.Site, "Program.String() panicked: " + pi.Value, map[string]any{"stack": pi.Stack}}, false, ""
	}
	r1 := progCanon(p1, false)
	hash = r1
	printed := []byte(s)
	printed = printed[:len(printed):len(printed)]
	p2, err2, pi2 := parseProg(printed)
	if pi2 != nil {
		return true, &c38Finding{"reparse-panic:" + pi2.Site, "parsing the printed program panicked: " + pi2.Value, map[string]any{"printed": clipS(s, 1500), "stack": pi2.Stack}}, false, hash
	}
	if err2 != nil {
		et, emsg, ctx := "error", firstLine(err2.Error()), ""
		if pe, ok := err2.(parser.Error); ok && len(pe.Errors) > 0 {
			e := pe.Errors[0]
			et = strings.TrimPrefix(fmt.Sprintf("%T", e), "*parser.")
			et = strings.TrimPrefix(et, "parser.")
			emsg = firstLine(e.Error())
			if hp, ok := e.(ast.HasPosition); ok {
				ctx = lexContext(printed, hp.StartPosition().Offset)
			}
		}
		return true, &c38Finding{
			Key:    fmt.Sprintf("reparse-fail:%s", et),
			Msg:    "the printed form of an accepted program does not parse: " + clipS(emsg, 200),
			Detail: map[string]any{"printed": clipS(s, 1500), "error": clipS(emsg, 300), "error_context": ctx},
		}, false, hash
	}
	r2 := progCanon(p2, false)
	// the AST's own JSON is the authority: it confirms a difference, and cross-checks equal verdicts on a sample
	sample := len(r1)%16 == 0
	if r1 != r2 || sample {
		t1, jerr := astTree(p1)
		if jerr != nil {
			return true, &c38Finding{"marshal-error", "MarshalJSON of the parsed program failed: " + jerr.Error(), nil}, false, hash
		}
		t2, jerr := astTree(p2)
		if jerr != nil {
			return true, &c38Finding{"marshal-error", "MarshalJSON of the re-parsed program failed: " + jerr.Error(), nil}, false, hash
		}
		s1 := stripTree(t1, unstripped)
		s2 := stripTree(t2, nil)
		jsonEqual := canon(s1) == canon(s2)
		if !jsonEqual && r1 == r2 { // the pre-check must never hide a difference the JSON oracle sees
			reflectJSONDisagree++
		}
		if !jsonEqual {
			d := firstDiff(s1, s2)
			return true, &c38Finding{
				Key:    "ast-diff:" + d.Field + "<" + d.Node,
				Msg:    fmt.Sprintf("print -> parse changes the AST at %s (%s.%s, parent %s): original %s, re-parsed %s", d.Path, d.Node, d.Field, d.Parent, d.A, d.B),
				Detail: map[string]any{"printed": clipS(s, 1500), "path": d.Path, "original_ast": d.A, "reparsed_ast": d.B},
			}, false, hash
		}
	}
	var s3 string
	if pi := guard(func() { s3 = p2.String() }); pi == nil && s3 == s {
		fixedPoint = true
	}
	return true, nil, fixedPoint, hash
}

// lexContext: classes of the lexical chunks before and at the given offset ("prev•next").
func lexContext(src []byte, off int) string {
	prev, next := "BOF", "EOF"
	for _, ch := range scanChunks(src) {
		if ch.Kind == ckSpace {
			continue
		}
		if ch.End <= off {
			prev = tokClass(string(src[ch.Start:ch.End]))
			continue
		}
		next = tokClass(string(src[ch.Start:ch.End]))
		break
	}
	return prev + "•" + next
}

// exprFocus generates a program of a few variable declarations / statements whose expressions nest
// operators, casts, unary chains, conditionals and postfix forms deeply.
func exprFocus(r *rand.Rand) *synGen {
	g := newSynGen(r)
	g.ltBudget = 4
	n := 1 + r.IntN(3)
	for i := 0; i < n; i++ {
		g.next(gFree, sLine)
		switch r.IntN(4) {
		case 0:
			g.w("fun")
			g.w(g.name())
			g.params(2, false)
			g.open("{")
			g.ind++
			g.next(gStmt, sLine)
			if r.IntN(2) == 0 {
				g.w("return")
				g.next(gNoNL, sSpace)
			} else {
				g.w("let")
				g.w(g.name())
				g.w(g.transfer())
			}
			g.expr(5 + r.IntN(5))
			g.ind--
			g.ln("}")
		default:
			g.w(pick(g, []string{"let", "var"}))
			g.w(g.name())
			if r.IntN(4) == 0 {
				g.c(":")
				g.typeAnn(4)
			}
			g.w(g.transfer())
			g.expr(4 + r.IntN(7))
		}
	}
	return g
}

func runC38(c *core.Ctx) {
	r := c.Rng
	kind := (c.Case + c.Case/8) % 8
	per := c.Pick(470, 940)
	submit := func(src []byte, origin map[string]any, feat map[string]int, class string) {
		un := 0
		acc, f, fp, hash := evalC38(src, &un)
		c.Count("unstripped_positions", int64(un))
		if reflectJSONDisagree > 0 {
			c.Count("reflect_json_disagree", int64(reflectJSONDisagree))
			reflectJSONDisagree = 0
		}
		c.Inc("sources")
		if !acc {
			c.Inc("rejected")
			return
		}
		c.Eval(1)
		c.Inc("accepted")
		c.Inc(class + "_accepted")
		c.Distinct(hash)
		for k := range feat {
			c.Inc("featacc:" + k)
		}
		if f == nil {
			c.Inc("roundtrip_equal")
			if fp {
				c.Inc("printer_fixed_point")
			} else {
				c.Inc("printer_not_fixed_point")
			}
			if c.WantSample() && len(src) < 400 {
				c.Sample(map[string]any{"source": string(src), "verdict": "same AST after print+parse"})
			}
			return
		}
		w := map[string]any{"source": clipS(string(src), 3000), "source_bytes": len(src), "origin": origin}
		if len(src) <= 20000 {
			w["raw_b64"] = base64.StdEncoding.EncodeToString(src)
		}
		for k, v := range f.Detail {
			w[k] = v
		}
		c.Violate(f.Key, f.Msg, w)
	}
	switch kind {
	case 0:
		files := repoCorpus()
		if len(files) == 0 {
			c.Inc("corpus_missing")
			return
		}
		nf := (len(files) + 7) / 8
		start := (c.Case / 8 % 8) * nf
		for j := 0; j < nf && start+j < len(files); j++ {
			f := files[start+j]
			submit(f.Src, map[string]any{"kind": "corpus", "file": f.Path}, nil, "corpus")
		}
		// plus expression-focused programs to fill the case
		for i := 0; i < per/2; i++ {
			g := exprFocus(r)
			submit([]byte(renderPlain(g.toks)), map[string]any{"kind": "expr-focus"}, g.feat, "expr_focus")
		}
	case 1, 2, 3:
		for i := 0; i < per; i++ {
			g := exprFocus(r)
			var src string
			if i%3 == 2 {
				src = renderVaried(g.toks, r)
			} else {
				src = renderPlain(g.toks)
			}
			c.Inc("gen_total")
			before := c.Case
			_ = before
			if _, err, _ := parseProg([]byte(src)); err == nil {
				c.Inc("gen_accepted")
			}
			submit([]byte(src), map[string]any{"kind": "expr-focus"}, g.feat, "expr_focus")
		}
	default:
		for i := 0; i < per; i++ {
			g := genProgram(r, 1+r.IntN(3))
			var src string
			mode := r.IntN(4)
			switch mode {
			case 0, 1:
				src = renderPlain(g.toks)
			case 2:
				src = renderVaried(g.toks, r)
			default:
				src, _ = renderTrivia(g.toks, r, triviaOpts{Density: []int{0, 5, 25}[r.IntN(3)], BlankLines: 15, Semis: 20})
			}
			if mode <= 2 {
				c.Inc("gen_total")
				if _, err, _ := parseProg([]byte(src)); err == nil {
					c.Inc("gen_accepted")
				}
			}
			submit([]byte(src), map[string]any{"kind": "generated", "render": mode}, g.feat, "program")
		}
	}
}

// finalizeC38 minimises the witness source of the first violation of every key.
func finalizeC38(a *core.Agg) {
	done := map[string]bool{}
	for i := range a.Violations {
		v := &a.Violations[i]
		w, ok := v.Witness.(map[string]any)
		if !ok {
			continue
		}
		raw, _ := w["raw_b64"].(string)
		delete(w, "raw_b64")
		if _, has := w["minimal_source"]; has {
			continue
		}
		if done[v.Key] || raw == "" || len(done) >= 12 {
			continue
		}
		done[v.Key] = true
		src, err := base64.StdEncoding.DecodeString(raw)
		if err != nil || len(src) < 8 {
			continue
		}
		key := v.Key
		holds := func(cand string) *c38Finding {
			acc, f, _, _ := evalC38([]byte(cand), nil)
			if acc && f != nil && f.Key == key {
				return f
			}
			return nil
		}
		m := minimize(string(src), func(cand string) bool { return holds(cand) != nil }, min(12000, 1+20_000_000/len(src)))
		if f := holds(m); f != nil && len(m) < len(src) {
			w["original_source"] = w["source"]
			w["source"] = m
			w["source_bytes"] = len(m)
			v.Msg = f.Msg
			for k, d := range f.Detail {
				w[k] = d
			}
		}
	}
}
