package syntax

import (
	"bytes"
	"encoding/json"
	"fmt"
	"reflect"
	"sort"
	"strings"

	"github.com/onflow/cadence/ast"
	"github.com/onflow/cadence/parser"
	"github.com/turbolent/prettier"
)

// Root-cause localisation for print -> parse defects (C38, also used by C39 for AST changes).
//
// Every expression / statement / declaration / type node of the original AST is printed on its own and
// parsed back in the matching context. The first node in post-order (children before parents) that does
// not round-trip, although all its descendants do, is the smallest subtree exhibiting the defect. If
// wrapping the printed form of one of its children in parentheses repairs it, the defect is a missing
// parenthesisation of that child kind inside that parent kind.

type localized struct {
	Key      string // narrow root-cause key
	Node     string // kind of the smallest failing subtree
	Printed  string // its printed form
	Fragment string // its source text
	Context  string // expression | statement | declaration | type
	Detail   string
	Reparsed string
	Wrapped  string // a program consisting of the fragment in a minimal context
	culprit  ast.Element
}

// parentOf returns the nearest printable (expression / statement / declaration / type) ancestor of target below root.
func parentOf(root, target ast.Element) ast.Element {
	var res ast.Element
	var walk func(e ast.Element, anc ast.Element) bool
	walk = func(e ast.Element, anc ast.Element) bool {
		if isNilElem(e) {
			return false
		}
		if e == target {
			res = anc
			return true
		}
		next := anc
		switch e.(type) {
		case ast.Expression, ast.Statement, ast.Declaration, ast.Type:
			next = e
		}
		done := false
		e.Walk(func(c ast.Element) {
			if !done && walk(c, next) {
				done = true
			}
		})
		return done
	}
	walk(root, nil)
	return res
}

func isNilElem(e ast.Element) bool {
	if e == nil {
		return true
	}
	v := reflect.ValueOf(e)
	return v.Kind() == reflect.Ptr && v.IsNil()
}

func nodeTree(e any) (any, error) {
	b, err := json.Marshal(e)
	if err != nil {
		return nil, err
	}
	dec := json.NewDecoder(bytes.NewReader(b))
	dec.UseNumber()
	var v any
	if err := dec.Decode(&v); err != nil {
		return nil, err
	}
	return stripTree(v, nil), nil
}

// subResult of printing one node and parsing it back.
type subResult struct {
	applicable bool
	ok         bool
	printed    string
	context    string
	perr       string   // parse error of the printed form (if any)
	diff       *astDiff // AST difference (if parsed)
}

// lastErrLine is the line of the first error of the most recent parseNodeIn call (0 = none).
var lastErrLine int

func firstErr(errs []error) string {
	lastErrLine = 0
	if len(errs) == 0 {
		return ""
	}
	if hp, ok := errs[0].(ast.HasPosition); ok {
		lastErrLine = hp.StartPosition().Line
	}
	return strings.TrimPrefix(strings.TrimPrefix(fmt.Sprintf("%T", errs[0]), "*parser."), "parser.")
}

// parseIn parses text in the given context and returns the stripped tree of the single node it denotes.
func parseIn(context string, text string) (tree string, perr string) {
	n, perr := parseNodeIn(context, text)
	if perr != "" {
		return "", perr
	}
	return nodeCanon(n), ""
}

// parseNodeIn parses text in the given context and returns the single node it denotes.
func parseNodeIn(context string, text string) (node any, perr string) {
	src := []byte(text)
	src = src[:len(src):len(src)]
	pi := guard(func() {
		switch context {
		case "expression":
			e, errs := parser.ParseExpression(nil, src, parser.Config{})
			if len(errs) > 0 {
				perr = firstErr(errs)
				return
			}
			node = e
		case "type":
			t, errs := parser.ParseType(nil, src, parser.Config{})
			if len(errs) > 0 {
				perr = firstErr(errs)
				return
			}
			node = t
		case "statement":
			ss, errs := parser.ParseStatements(nil, src, parser.Config{})
			if len(errs) > 0 {
				perr = firstErr(errs)
				return
			}
			if len(ss) != 1 {
				perr = fmt.Sprintf("parsed as %d statements", len(ss))
				return
			}
			node = ss[0]
		case "declaration":
			ds, errs := parser.ParseDeclarations(nil, src, parser.Config{})
			if len(errs) > 0 {
				perr = firstErr(errs)
				return
			}
			if len(ds) != 1 {
				perr = fmt.Sprintf("parsed as %d declarations", len(ds))
				return
			}
			node = ds[0]
		}
	})
	if pi != nil {
		return nil, "panic:" + pi.Site
	}
	if perr != "" {
		return nil, perr
	}
	return node, ""
}

func contextOf(e ast.Element) string {
	switch x := e.(type) {
	case *ast.FieldDeclaration, *ast.EnumCaseDeclaration, *ast.SpecialFunctionDeclaration:
		return "" // only valid inside a composite: covered by the enclosing declaration
	case *ast.FunctionDeclaration:
		if x.FunctionBlock == nil {
			return "" // body-less functions are only valid inside interfaces / composites
		}
	}
	switch e.(type) {
	case ast.Expression:
		return "expression"
	case ast.Declaration:
		return "declaration"
	case ast.Statement:
		return "statement"
	case ast.Type:
		return "type"
	}
	return ""
}

func printElem(e ast.Element) (s string, ok bool) {
	st, isS := e.(fmt.Stringer)
	if !isS {
		return "", false
	}
	if pi := guard(func() { s = st.String() }); pi != nil {
		return "", false
	}
	return s, true
}

// printWide prints without line-width wrapping, so that a child's print is a substring of its parent's.
func printWide(e ast.Element) (s string, ok bool) {
	pr, isP := e.(ast.Pretty)
	if !isP {
		return "", false
	}
	if pi := guard(func() {
		var b strings.Builder
		prettier.Prettier(&b, pr.Doc(ast.NopContext{}).Flatten(), 1<<28, "    ")
		s = b.String()
	}); pi != nil {
		return "", false
	}
	return s, true
}

func roundTripElem(e ast.Element) subResult {
	ctx := contextOf(e)
	if ctx == "" {
		return subResult{}
	}
	printed, ok := printElem(e)
	if !ok || strings.TrimSpace(printed) == "" {
		return subResult{}
	}
	orig := nodeCanon(e)
	res := subResult{applicable: true, printed: printed, context: ctx}
	n, perr := parseNodeIn(ctx, printed)
	if perr != "" {
		res.perr = perr
		return res
	}
	if orig == nodeCanon(n) {
		res.ok = true
		return res
	}
	// confirm and describe with the JSON form
	ot, err1 := nodeTree(e)
	nt, err2 := nodeTree(n)
	if err1 != nil || err2 != nil {
		return subResult{}
	}
	if canon(ot) == canon(nt) {
		res.ok = true // the JSON oracle is the authority
		return res
	}
	res.diff = firstDiff(ot, nt)
	return res
}

// localize finds the smallest subtree of prog (parsed from src) that does not survive print -> parse.
func localize(prog *ast.Program, src []byte) *localized {
	var found *localized
	var visit func(e ast.Element)
	visit = func(e ast.Element) {
		if found != nil || isNilElem(e) {
			return
		}
		e.Walk(func(c ast.Element) { visit(c) })
		if found != nil || e.ElementType() == ast.ElementTypeProgram {
			return
		}
		r := roundTripElem(e)
		if !r.applicable || r.ok {
			return
		}
		kind := kindName(e)
		loc := &localized{Node: kind, Printed: r.printed, Context: r.context}
		so, eo := e.StartPosition().Offset, e.EndPosition(nil).Offset
		if so >= 0 && eo < len(src) && so <= eo {
			loc.Fragment = string(src[so : eo+1])
		}
		orig := nodeCanon(e)
		// does parenthesising one descendant repair it? (deepest descendant first: the node that really needs them)
		type cand struct {
			e     ast.Element
			depth int
		}
		var cands []cand
		var collect func(c ast.Element, depth int)
		collect = func(c ast.Element, depth int) {
			if isNilElem(c) || len(cands) > 400 {
				return
			}
			switch c.(type) {
			case ast.Expression, ast.Type:
				cands = append(cands, cand{c, depth})
			}
			c.Walk(func(cc ast.Element) { collect(cc, depth+1) })
		}
		e.Walk(func(c ast.Element) { collect(c, 1) })
		// constructs whose operand parse is greedy or whose print starts with a sign come first; then deepest first
		prio := func(c ast.Element) int {
			switch x := c.(type) {
			case *ast.AttachExpression, *ast.DestroyExpression:
				return 0
			case *ast.IntegerExpression:
				if x.Value != nil && x.Value.Sign() < 0 {
					return 1
				}
				return 9
			case *ast.FixedPointExpression:
				if x.Negative {
					return 1
				}
				return 9
			case *ast.UnaryExpression, *ast.ReferenceExpression, *ast.CreateExpression:
				return 2
			case *ast.CastingExpression, *ast.ConditionalExpression, *ast.FunctionExpression:
				return 3
			case *ast.BinaryExpression:
				return 4
			case ast.Type:
				return 5
			}
			return 6
		}
		sort.SliceStable(cands, func(i, j int) bool {
			pi, pj := prio(cands[i].e), prio(cands[j].e)
			if pi != pj {
				return pi < pj
			}
			return cands[i].depth > cands[j].depth
		})
		wide, wok := printWide(e)
		if !wok {
			wide = r.printed
		}
		if t, perr := parseIn(r.context, wide); perr == "" && t == orig {
			wide = r.printed // the unwrapped print behaves differently: stay with the real print
		}
		tryParens := func() {
			tries := 0
			for _, cd := range cands {
				c := cd.e
				cp, ok := printWide(c)
				if !ok || cp == "" {
					continue
				}
				idx := strings.Index(wide, cp)
				for idx >= 0 && tries < 120 {
					tries++
					fixed := wide[:idx] + "(" + cp + ")" + wide[idx+len(cp):]
					if t, perr := parseIn(r.context, fixed); perr == "" && t == orig {
						parent := kind
						loc.Key = fmt.Sprintf("needs-parens:%s", kindName(c))
						_ = parent
						loc.culprit = c
						loc.Detail = fmt.Sprintf("printed %q; parenthesising the %s %q repairs it", clipS(r.printed, 300), kindName(c), clipS(cp, 120))
						return
					}
					n := strings.Index(wide[idx+1:], cp)
					if n < 0 {
						break
					}
					idx += 1 + n
				}
			}
		}
		trySeparator := func() {
			// A semicolon after every line that can end a statement / condition; if that repairs the print, the
			// defect is a missing separator. The needed semicolons are then reduced greedily; the key names the
			// first token of the line that would otherwise continue the previous one.
			lines := strings.Split(r.printed, "\n")
			can := make([]bool, len(lines))
			for i := 0; i < len(lines)-1; i++ {
				t := strings.TrimSpace(lines[i])
				if t == "" {
					continue
				}
				switch t[len(t)-1] {
				case '{', '(', '[', ',', ':', ';':
					continue
				}
				can[i] = true
			}
			build := func(use []bool) string {
				var b strings.Builder
				for i, l := range lines {
					b.WriteString(l)
					if use[i] {
						b.WriteByte(';')
					}
					if i < len(lines)-1 {
						b.WriteByte('\n')
					}
				}
				return b.String()
			}
			state := func(use []bool) (equal bool, errLine int) {
				lastErrLine = 0
				t, perr := parseIn(r.context, build(use))
				if perr != "" {
					return false, lastErrLine
				}
				return t == orig, 0
			}
			use := make([]bool, len(lines))
			ok := false
			for iter := 0; iter < 10 && !ok; iter++ {
				eq, errLine := state(use)
				if eq {
					ok = true
					break
				}
				if errLine > 0 {
					// the line before the error line continues into it: separate them
					placed := false
					for i := min(errLine-2, len(lines)-2); i >= 0 && i >= errLine-4; i-- {
						if can[i] && !use[i] {
							use[i] = true
							placed = true
							break
						}
					}
					if !placed {
						return
					}
					continue
				}
				// parses but differs: one more semicolon somewhere?
				for i := range can {
					if can[i] && !use[i] {
						use[i] = true
						if eq, _ := state(use); eq {
							ok = true
							break
						}
						use[i] = false
					}
				}
				break
			}
			if !ok {
				return
			}
			// drop semicolons that are not needed
			for i := range use {
				if use[i] {
					use[i] = false
					if eq, _ := state(use); !eq {
						use[i] = true
					}
				}
			}
			for i := range use {
				if use[i] {
					nxt := ""
					for j := i + 1; j < len(lines) && nxt == ""; j++ {
						nxt = strings.TrimSpace(lines[j])
					}
					loc.Key = fmt.Sprintf("needs-separator:before-line-starting-with=%s", tokClass(firstChunk(nxt)))
					loc.Detail = fmt.Sprintf("printed %q; a semicolon after line %d (%q) repairs it", clipS(r.printed, 300), i+1, clipS(strings.TrimSpace(lines[i]), 80))
					return
				}
			}
		}
		if strings.Contains(r.printed, "\n") {
			trySeparator()
		}
		if loc.Key == "" {
			tryParens()
		}
		if loc.culprit != nil {
			// name the construct around the culprit: its parent kind inside the failing subtree
			par := parentOf(e, loc.culprit)
			if par != nil {
				loc.Key += " in " + kindName(par)
			}
		}
		if loc.Key == "" {
			if r.perr != "" {
				loc.Key = fmt.Sprintf("print-unparseable:%s:%s", kind, stripDigits(r.perr))
				if strings.Contains(r.perr, "DepthLimit") {
					loc.Key = "print-unparseable:" + r.perr
				}
				loc.Detail = fmt.Sprintf("printed %q does not parse as %s: %s", clipS(r.printed, 300), r.context, r.perr)
			} else {
				loc.Key = fmt.Sprintf("print-defect:%s:%s.%s", kind, r.diff.Node, r.diff.Field)
				if r.diff.Node == "TestCondition" {
					// a condition (or its message) absorbed the following line
					loc.Key = "needs-separator:between-conditions"
				}
				loc.Detail = fmt.Sprintf("printed %q re-parses differently at %s: original %s, re-parsed %s", clipS(r.printed, 300), r.diff.Path, r.diff.A, r.diff.B)
			}
		}
		if r.diff != nil {
			loc.Reparsed = r.diff.B
		}
		// the fragment in a minimal context, as a stand-alone program
		switch r.context {
		case "expression":
			loc.Wrapped = "let x = " + loc.Fragment
		case "type":
			loc.Wrapped = "let x: " + loc.Fragment + " = 1"
		case "statement":
			loc.Wrapped = "fun f() {\n" + loc.Fragment + "\n}"
		default:
			loc.Wrapped = loc.Fragment
		}
		found = loc
	}
	pi := guard(func() { visit(prog) })
	if pi != nil {
		return nil
	}
	return found
}

func kindName(e ast.Element) string {
	return strings.TrimPrefix(e.ElementType().String(), "ElementType")
}

func firstChunk(s string) string {
	b := []byte(s)
	for _, ch := range scanChunks(b) {
		if ch.Kind != ckSpace {
			return string(b[ch.Start:ch.End])
		}
	}
	return ""
}
