// Package syntax holds the checks of group syntax (see harness/groups.txt):
//
//	C37  lexing, parsing and checking are total and report in-range positions          (c37.go)
//	C38  printing a parsed program and re-parsing it yields the same AST               (c38.go, localize.go)
//	C39  the formatter preserves meaning and comments and is idempotent                (c39.go)
//
// Shared machinery:
//
//	gen_syn.go   seeded grammar-based generator of parseable Cadence sources (token list with boundary
//	             constraints; renderers: plain, random whitespace, comments / blank lines / semicolons)
//	mut_syn.go   mutators (token / byte level, truncation, bracket imbalance, unterminated constructs, huge
//	             literals, invalid UTF-8) and the 48 deep-nesting families
//	lex_syn.go   an own lexical scanner (chunks, comments) and the delta minimiser (lines, chunks, bracket
//	             pairs, windows, characters)
//	util_syn.go  corpus of the repository's .cdc files, guarded calls, AST JSON stripping / diffing, the
//	             reflective canonical form used as a fast pre-check of the JSON oracle
//	localize.go  root-cause localisation of print -> parse defects (smallest failing subtree, repair by
//	             parenthesising one descendant or by one separator)
package syntax
