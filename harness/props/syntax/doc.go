// Package syntax holds the checks of group syntax (see harness/groups.txt).
package syntax
