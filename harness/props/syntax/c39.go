package syntax

import (
	"errors"
	"fmt"
	"hash/fnv"
	"sort"
	"strings"

	"github.com/onflow/cadence/formatter"
	"github.com/onflow/cadence/parser/lexer"

	"verif/harness/core"
)

// C39 — the formatter preserves meaning and comments and is idempotent.

func init() {
	core.Register(&core.Prop{
		ID:    "C39",
		Level: "exploration",
		Rule: "sources = grammar-generated programs rendered with generated comments (line / doc-line / block / doc-block / multi-line / nested block) at one, few or all token boundaries " +
			"(leading, trailing, same-line, inside empty lists, between arguments / parameters / members), random blank lines and semicolons, plus comment-free renderings and the repository's .cdc files; " +
			"only parser-accepted sources; each is formatted under one of the 72 option combinations (line width 40/100, indent 2 spaces / 4 spaces / tab, SortImports, StripSemicolons, KeepBlankLines 0/1/2), all combinations covered; " +
			"distinct = (source, options) hash",
		Assumptions: []string{
			"an error returned by Format is acceptable (counted per class); only outputs returned without error are judged",
			"comments are found by an own lexical scanner (cross-checked against the lexer's comment tokens; disagreeing sources are skipped and counted)",
			"comment text is compared modulo layout: trailing whitespace of line comments and the indentation / trailing whitespace of block-comment lines are not text",
			"AST comparison as in C38 (AST JSON without position keys and doc strings, reflective pre-check cross-checked against it); with SortImports the import declarations are compared as a multiset",
		},
		NumCases: func(tier string) int {
			if tier == "thorough" {
				return 1280
			}
			return 48
		},
		Run: runC39,
		Floors: map[string]int64{
			"accepted":             6000,
			"gen_accept_pct":       50,
			"formatted_ok":         3000,
			"law_ast_checked":      3000,
			"law_comments_checked": 3000,
			"law_idem_checked":     3000,
			"comments_in_sources":  20000,
			"option_combos":        72,
			"single_comment_srcs":  1500,
			"dense_comment_srcs":   300,
			"no_comment_srcs":      500,
			"corpus_sources":       60,
			"position_classes":     150,
		},
		Finalize: func(a *core.Agg) {
			if g := a.Counters["gen_total"]; g > 0 {
				a.Counters["gen_accept_pct"] = a.Counters["gen_accepted"] * 100 / g
			}
			n, pc := int64(0), int64(0)
			for k, v := range a.Counters {
				if strings.HasPrefix(k, "opt:") && v > 0 {
					n++
				}
				if strings.HasPrefix(k, "pos:") && v > 0 {
					pc++
				}
			}
			a.Counters["option_combos"] = n
			a.Counters["position_classes"] = pc
			for k := range a.Counters {
				if strings.HasPrefix(k, "pos:") {
					delete(a.Counters, k)
				}
			}
			if a.Counters["reflect_json_disagree"] > 0 {
				a.Inconclusive = append(a.Inconclusive, "the reflective AST pre-check and the AST JSON oracle disagree on some program")
			}
			if acc := a.Counters["accepted"]; acc > 0 {
				pct := a.Counters["format_errors"] * 100 / acc
				a.Counters["format_error_pct"] = pct
				if pct > 50 {
					a.Inconclusive = append(a.Inconclusive, fmt.Sprintf("formatter returned an error for %d%% of the accepted sources (> 50%%): the laws are hardly exercised", pct))
				}
			}
		},
	})
}

type fmtOpts struct {
	Width  int
	Indent string // "s2" | "s4" | "tab"
	Sort   bool
	Strip  bool
	Keep   int
}

func (o fmtOpts) String() string {
	return fmt.Sprintf("width=%d,indent=%s,sortImports=%v,stripSemicolons=%v,keepBlankLines=%d", o.Width, o.Indent, o.Sort, o.Strip, o.Keep)
}

func (o fmtOpts) real() formatter.Options {
	f := formatter.Default()
	f.LineWidth = o.Width
	switch o.Indent {
	case "s2":
		f.IndentCharacter, f.IndentCount = " ", 2
	case "s4":
		f.IndentCharacter, f.IndentCount = " ", 4
	default:
		f.IndentCharacter, f.IndentCount = "\t", 1
	}
	f.SortImports = o.Sort
	f.StripSemicolons = o.Strip
	f.KeepBlankLines = o.Keep
	return f
}

var defaultFmtOpts = fmtOpts{Width: 100, Indent: "s4", Sort: true, Strip: true, Keep: 1}

func allFmtOpts() []fmtOpts {
	var out []fmtOpts
	for _, w := range []int{40, 100} {
		for _, in := range []string{"s2", "s4", "tab"} {
			for _, so := range []bool{false, true} {
				for _, st := range []bool{false, true} {
					for _, k := range []int{0, 1, 2} {
						out = append(out, fmtOpts{w, in, so, st, k})
					}
				}
			}
		}
	}
	return out
}

// commentsViaLexer extracts the comments with the real lexer (cross-check of the own scanner).
func commentsViaLexer(src []byte) (out []string, ok bool) {
	pi := guard(func() {
		ts, err := lexer.Lex(src, nil)
		if err != nil {
			return
		}
		defer ts.Reclaim()
		depth, start := 0, 0
		for i := 0; i < 1<<20; i++ {
			t := ts.Next()
			switch t.Type {
			case lexer.TokenEOF:
				ok = depth == 0
				return
			case lexer.TokenLineComment:
				if depth == 0 {
					out = append(out, string(t.Source(src)))
				}
			case lexer.TokenBlockCommentStart:
				if depth == 0 {
					start = t.StartPos.Offset
				}
				depth++
			case lexer.TokenBlockCommentEnd:
				depth--
				if depth == 0 {
					out = append(out, string(src[start:t.EndPos.Offset+1]))
				}
			}
		}
	})
	if pi != nil {
		return nil, false
	}
	return
}

type c39Result struct {
	Accepted bool
	FmtErr   string // class of the error returned by Format ("" = none)
	Law      string // "" = all laws hold
	Sub      string // law-specific class (comment kind, diff kind, ...)
	Msg      string
	Detail   map[string]any
	Out      string
	Comments int
}

func fmtErrClass(err error) string {
	switch {
	case errors.Is(err, formatter.ErrParse):
		return "parse"
	case errors.Is(err, formatter.ErrInternal):
		m := err.Error()
		switch {
		case strings.Contains(m, "orphaned comments"):
			return "internal:orphaned-comments"
		case strings.Contains(m, "round-trip verification failed"):
			if strings.Contains(m, "formatted parse error") {
				return "internal:verify:output-unparseable"
			}
			return "internal:verify:structure-changed"
		case strings.Contains(m, "rewrite failed"):
			return "internal:rewrite"
		}
		return "internal:other"
	}
	return "other"
}

func commentKind(text string) string {
	switch {
	case strings.HasPrefix(text, "///"):
		return "doc-line"
	case strings.HasPrefix(text, "//"):
		return "line"
	case strings.HasPrefix(text, "/**") && !strings.HasPrefix(text, "/**/"):
		if strings.Contains(text, "\n") {
			return "doc-block-multiline"
		}
		return "doc-block"
	case strings.Contains(text, "\n"):
		return "block-multiline"
	case strings.Count(text, "/*") > 1:
		return "block-nested"
	}
	return "block"
}

// evalC39 formats src under o and checks the three laws on the output.
func evalC39(src []byte, o fmtOpts) (res c39Result) {
	src = src[:len(src):len(src)]
	p1, err, pi := parseProg(src)
	if err != nil || pi != nil {
		return
	}
	res.Accepted = true
	mine := scanComments(src)
	res.Comments = len(mine)
	viaLexer, lok := commentsViaLexer(src)
	if !lok || len(viaLexer) != len(mine) {
		res.FmtErr = "skip:scanner-disagrees"
		return
	}
	for i := range mine {
		if mine[i].Text != viaLexer[i] {
			res.FmtErr = "skip:scanner-disagrees"
			return
		}
	}
	ro := o.real()
	var out []byte
	var ferr error
	if pi := guard(func() { out, ferr = formatter.Format(src, ro) }); pi != nil {
		res.Law, res.Sub = "format-panic", pi.Site
		res.Msg = "formatter.Format panicked: " + pi.Value
		res.Detail = map[string]any{"stack": pi.Stack}
		return
	}
	if ferr != nil {
		res.FmtErr = fmtErrClass(ferr)
		res.Detail = map[string]any{"error": clipS(ferr.Error(), 400)}
		return
	}
	res.Out = string(out)
	out = out[:len(out):len(out)]
	// law 1: the output parses to the same AST
	p2, err2, pi2 := parseProg(out)
	if pi2 != nil || err2 != nil {
		res.Law, res.Sub = "output-unparseable", "parse-error"
		if err2 != nil {
			res.Msg = "the formatted output does not parse: " + clipS(firstLine(strings.TrimPrefix(err2.Error(), "Parsing failed:\n")), 200)
		} else {
			res.Msg = "parsing the formatted output panicked at " + pi2.Site
		}
		return
	}
	if r1, r2 := progCanon(p1, o.Sort), progCanon(p2, o.Sort); r1 != r2 || len(r1)%16 == 0 {
		// the AST's own JSON is the authority (confirms differences; cross-checks equal verdicts on a sample)
		t1, e1 := astTree(p1)
		t2, e2 := astTree(p2)
		if e1 != nil || e2 != nil {
			res.FmtErr = "skip:marshal"
			return
		}
		s1, s2 := stripTree(t1, nil), stripTree(t2, nil)
		if o.Sort {
			s1, s2 = sortImports(s1), sortImports(s2)
		}
		jsonEqual := canon(s1) == canon(s2)
		if !jsonEqual && r1 == r2 { // the pre-check must never hide a difference the JSON oracle sees
			reflectJSONDisagree++
			reflectJSONExample = fmt.Sprintf("json_equal=%v reflect_equal=%v options=%s source=%q output=%q", jsonEqual, r1 == r2, o, clipS(string(src), 1500), clipS(string(out), 1500))
		}
		if !jsonEqual {
			d := firstDiff(s1, s2)
			res.Law, res.Sub = "ast-changed", d.Node+"."+d.Field
			res.Msg = fmt.Sprintf("formatting changes the AST at %s (%s.%s, parent %s): original %s, formatted %s", d.Path, d.Node, d.Field, d.Parent, d.A, d.B)
			res.Detail = map[string]any{"path": d.Path, "original_ast": d.A, "formatted_ast": d.B, "parent": d.Parent}
			return
		}
	}
	// law 2: every comment exactly once, text unchanged
	after := scanComments(out)
	want := map[string]int{}
	kinds := map[string]string{}
	for _, c := range mine {
		n := normComment(c)
		want[n]++
		kinds[n] = commentKind(c.Text)
	}
	got := map[string]int{}
	for _, c := range after {
		n := normComment(c)
		got[n]++
		if _, ok := kinds[n]; !ok {
			kinds[n] = commentKind(c.Text)
		}
	}
	var lost, dup, extra []string
	for n, w := range want {
		switch g := got[n]; {
		case g < w:
			lost = append(lost, n)
		case g > w:
			dup = append(dup, n)
		}
	}
	for n := range got {
		if want[n] == 0 {
			extra = append(extra, n)
		}
	}
	sort.Strings(lost)
	sort.Strings(dup)
	sort.Strings(extra)
	if len(lost)+len(dup)+len(extra) > 0 {
		switch {
		case len(lost) > 0 && len(extra) > 0 && len(lost) == len(extra):
			res.Law, res.Sub = "comment-text-changed", kinds[lost[0]]
			res.Msg = fmt.Sprintf("comment text changed: %q became %q", clipS(lost[0], 120), clipS(extra[0], 120))
		case len(lost) > 0:
			res.Law, res.Sub = "comment-lost", kinds[lost[0]]
			res.Msg = fmt.Sprintf("comment %q of the input is missing from the output", clipS(lost[0], 120))
		case len(dup) > 0:
			res.Law, res.Sub = "comment-duplicated", kinds[dup[0]]
			res.Msg = fmt.Sprintf("comment %q appears %d times in the output (input: %d)", clipS(dup[0], 120), got[dup[0]], want[dup[0]])
		default:
			res.Law, res.Sub = "comment-invented", kinds[extra[0]]
			res.Msg = fmt.Sprintf("the output contains a comment %q that the input does not have", clipS(extra[0], 120))
		}
		res.Detail = map[string]any{"lost": lost, "duplicated": dup, "new": extra}
		return
	}
	// law 3: fixed point
	var out2 []byte
	var ferr2 error
	if pi := guard(func() { out2, ferr2 = formatter.Format(out, ro) }); pi != nil {
		res.Law, res.Sub = "format-panic", pi.Site
		res.Msg = "formatting the formatted output panicked: " + pi.Value
		return
	}
	if ferr2 != nil {
		res.Law, res.Sub = "not-idempotent", "second-pass-error:"+fmtErrClass(ferr2)
		res.Msg = "formatting the formatted output fails: " + clipS(firstLine(ferr2.Error()), 200)
		return
	}
	if string(out2) != string(out) {
		a, b := firstDifferingLines(string(out), string(out2))
		sub := "layout"
		if strings.Contains(a, "//") || strings.Contains(a, "/*") || strings.Contains(b, "//") || strings.Contains(b, "/*") {
			sub = "comment-moves"
		} else if strings.TrimSpace(a) == "" || strings.TrimSpace(b) == "" {
			sub = "blank-lines"
		}
		res.Law, res.Sub = "not-idempotent", sub
		res.Msg = fmt.Sprintf("Format(Format(src)) != Format(src): first differing line %q vs %q", clipS(a, 120), clipS(b, 120))
		res.Detail = map[string]any{"second_output": clipS(string(out2), 1500)}
		return
	}
	return
}

func firstDifferingLines(a, b string) (string, string) {
	la, lb := strings.Split(a, "\n"), strings.Split(b, "\n")
	for i := 0; i < len(la) || i < len(lb); i++ {
		x, y := "<EOF>", "<EOF>"
		if i < len(la) {
			x = la[i]
		}
		if i < len(lb) {
			y = lb[i]
		}
		if x != y {
			return x, y
		}
	}
	return "", ""
}

// positionClass describes where the first comment of a (minimised) source sits:
// innermost enclosing AST element, the lexical neighbours and the line placement.
func positionClass(src []byte) string {
	cs := scanComments(src)
	if len(cs) == 0 {
		return "no-comment"
	}
	c := cs[0]
	prog, err, pi := parseProg(src)
	encl := "?"
	if err == nil && pi == nil {
		k, _ := innermostElement(prog, c.Start)
		encl = strings.TrimPrefix(k, "ElementType")
	}
	prev, next := "BOF", "EOF"
	prevEnd, nextStart := 0, len(src)
	for _, ch := range scanChunks(src) {
		if ch.Kind == ckSpace || ch.Kind == ckLineComment || ch.Kind == ckBlockComment {
			continue
		}
		if ch.End <= c.Start {
			prev = tokClass(string(src[ch.Start:ch.End]))
			prevEnd = ch.End
			continue
		}
		if ch.Start >= c.Start+len(c.Text) {
			next = tokClass(string(src[ch.Start:ch.End]))
			nextStart = ch.Start
			break
		}
	}
	place := "own-line"
	before := string(src[prevEnd:c.Start])
	after := ""
	if e := c.Start + len(c.Text); e <= nextStart {
		after = string(src[e:nextStart])
	}
	switch {
	case prev == "BOF":
		place = "file-start"
	case !strings.Contains(before, "\n") && !strings.Contains(after, "\n") && next != "EOF":
		place = "inline"
	case !strings.Contains(before, "\n"):
		place = "trailing"
	}
	return fmt.Sprintf("%s:%s•%s:%s", encl, prev, next, place)
}

var (
	c39ProvSeen  = map[string]int{}
	c39MinCount  int
	c39PrioCount int
)

func relevantOptions(src []byte, o fmtOpts, law, sub string) string {
	same := func(x fmtOpts) bool {
		r := evalC39(src, x)
		return r.Law == law && r.Sub == sub
	}
	if same(defaultFmtOpts) {
		return "default-options"
	}
	var need []string
	d := defaultFmtOpts
	try := func(name string, reset func(x *fmtOpts)) {
		x := o
		reset(&x)
		if x != o && !same(x) {
			need = append(need, name)
		}
	}
	try(fmt.Sprintf("width=%d", o.Width), func(x *fmtOpts) { x.Width = d.Width })
	try("indent="+o.Indent, func(x *fmtOpts) { x.Indent = d.Indent })
	try(fmt.Sprintf("sortImports=%v", o.Sort), func(x *fmtOpts) { x.Sort = d.Sort })
	try(fmt.Sprintf("stripSemicolons=%v", o.Strip), func(x *fmtOpts) { x.Strip = d.Strip })
	try(fmt.Sprintf("keepBlankLines=%d", o.Keep), func(x *fmtOpts) { x.Keep = d.Keep })
	if len(need) == 0 {
		return "non-default-options"
	}
	return strings.Join(need, ",")
}

func runC39(c *core.Ctx) {
	r := c.Rng
	opts := allFmtOpts()
	kind := (c.Case + c.Case/8) % 8
	per := c.Pick(330, 660)
	minCap := c.Pick(14, 40)

	submit := func(src []byte, o fmtOpts, origin map[string]any, ins []insertedComment, class string) {
		res := evalC39(src, o)
		c.Inc("sources")
		if !res.Accepted {
			c.Inc("rejected")
			return
		}
		c.Inc("accepted")
		c.Inc(class)
		c.Eval(1)
		h := fnv.New64a()
		_, _ = h.Write(src)
		_, _ = h.Write([]byte(o.String()))
		c.DistinctHash(h.Sum64())
		c.Inc("opt:" + o.String())
		if reflectJSONDisagree > 0 {
			c.Count("reflect_json_disagree", int64(reflectJSONDisagree))
			c.Note("reflect_json_disagree_example", reflectJSONExample)
			reflectJSONDisagree = 0
		}
		c.Count("comments_in_sources", int64(res.Comments))
		for _, ic := range ins {
			c.Inc("pos:" + ic.Ctx + ":" + ic.Prev + "•" + ic.Next)
		}
		if strings.HasPrefix(res.FmtErr, "skip:") {
			c.Inc(res.FmtErr)
			return
		}
		if res.FmtErr != "" {
			c.Inc("format_errors")
			c.Inc("format_error:" + res.FmtErr)
			return
		}
		if res.Law == "" {
			c.Inc("formatted_ok")
			c.Inc("law_ast_checked")
			c.Inc("law_comments_checked")
			c.Inc("law_idem_checked")
			if c.WantSample() && len(src) < 500 && res.Comments > 0 {
				c.Sample(map[string]any{"source": string(src), "options": o.String(), "output": res.Out, "verdict": "same AST, same comments, fixed point"})
			}
			return
		}
		c.Inc("law_violations:" + res.Law)
		c.Inc("law_violations:" + res.Law + ":" + res.Sub)
		switch res.Law {
		case "comment-lost", "comment-duplicated", "comment-text-changed", "comment-invented":
			c.Inc("law_ast_checked")
			c.Inc("law_comments_checked")
		case "not-idempotent":
			c.Inc("law_ast_checked")
			c.Inc("law_comments_checked")
			c.Inc("law_idem_checked")
		default:
			c.Inc("law_ast_checked")
		}
		// provisional class: law + sub + (for attributable single comments) the generator's position class
		prov := res.Law + ":" + res.Sub
		if len(ins) == 1 {
			prov += ":" + ins[0].Ctx + ":" + ins[0].Prev + "•" + ins[0].Next
		} else if f, ok := origin["file"].(string); ok {
			prov += ":" + f
		} else if res.Law != "ast-changed" && res.Law != "format-panic" {
			prov += fmt.Sprintf(":multi:%d", min(len(ins), 3))
		}
		c39ProvSeen[prov]++
		// rare laws and real-world files are always reduced and reported; the frequent idempotence class is capped per worker
		_, isCorpus := origin["file"]
		priority := isCorpus || !(res.Law == "not-idempotent" || res.Law == "ast-changed" && strings.HasPrefix(res.Sub, "TransactionDeclaration.ParameterList"))
		if c39ProvSeen[prov] > 1 || (!priority && c39MinCount >= minCap) || (priority && c39PrioCount >= 3*minCap) {
			c.Inc("violations_not_minimised")
			return
		}
		if priority {
			c39PrioCount++
		} else {
			c39MinCount++
		}
		law, sub := res.Law, res.Sub
		m := minimize(string(src), func(cand string) bool {
			x := evalC39([]byte(cand), o)
			return x.Accepted && x.Law == law && x.Sub == sub
		}, min(2500, 1+4_000_000/len(src)))
		msrc := []byte(m)
		mres := evalC39(msrc, o)
		if mres.Law != law || mres.Sub != sub {
			msrc, mres = src, res
		}
		optKey := relevantOptions(msrc, o, law, sub)
		key := fmt.Sprintf("%s:%s:%s:%s", law, sub, positionClass(msrc), optKey)
		if law == "ast-changed" {
			par, _ := mres.Detail["parent"].(string)
			key = fmt.Sprintf("%s:%s<%s:%s", law, sub, par, optKey)
		}
		w := map[string]any{
			"source": string(msrc), "options": o.String(), "output": clipS(mres.Out, 2000),
			"origin": origin, "law": law,
		}
		if len(msrc) != len(src) {
			w["original_source"] = clipS(string(src), 3000)
		}
		for k, v := range mres.Detail {
			w[k] = v
		}
		c.Violate(key, mres.Msg, w)
	}

	switch kind {
	case 0:
		files := repoCorpus()
		if len(files) == 0 {
			c.Inc("corpus_missing")
			return
		}
		nf := (len(files) + 5) / 6
		start := (c.Case / 8 % 6) * nf
		for j := 0; j < nf && start+j < len(files); j++ {
			f := files[start+j]
			// default options and one random combination
			submit(f.Src, defaultFmtOpts, map[string]any{"kind": "corpus", "file": f.Path}, nil, "corpus_sources")
			submit(f.Src, opts[r.IntN(len(opts))], map[string]any{"kind": "corpus", "file": f.Path}, nil, "corpus_sources")
		}
	default:
		for i := 0; i < per; i++ {
			g := genProgram(r, 1+r.IntN(3))
			var src string
			var ins []insertedComment
			class := ""
			mode := r.IntN(10)
			switch {
			case mode < 5:
				src, ins = renderTrivia(g.toks, r, triviaOpts{Density: 0, BlankLines: 10, Semis: 10})
				class = "single_comment_srcs"
			case mode < 7:
				src, ins = renderTrivia(g.toks, r, triviaOpts{Density: 4 + r.IntN(8), BlankLines: 20, Semis: 20})
				class = "sparse_comment_srcs"
			case mode < 8:
				src, ins = renderTrivia(g.toks, r, triviaOpts{Density: 100, BlankLines: 10, Semis: 10})
				class = "dense_comment_srcs"
			default:
				if r.IntN(2) == 0 {
					src = renderPlain(g.toks)
				} else {
					src = renderVaried(g.toks, r)
				}
				class = "no_comment_srcs"
			}
			c.Inc("gen_total")
			if _, err, _ := parseProg([]byte(src)); err == nil {
				c.Inc("gen_accepted")
			}
			o := opts[r.IntN(len(opts))]
			if r.IntN(4) == 0 {
				o = defaultFmtOpts
			}
			submit([]byte(src), o, map[string]any{"kind": "generated", "comments": class}, ins, class)
		}
	}
}
