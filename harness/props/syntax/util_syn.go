package syntax

import (
	"bytes"
	"encoding/json"
	"fmt"
	"math/big"
	"os"
	"path/filepath"
	"reflect"
	"runtime/debug"
	"sort"
	"strconv"
	"strings"
	"sync"

	"github.com/onflow/cadence/ast"
	"github.com/onflow/cadence/parser"
)

// ---------------------------------------------------------------- corpus

type corpusFile struct {
	Path string
	Src  []byte
}

var (
	corpusOnce  sync.Once
	corpusFiles []corpusFile
)

// repoCorpus returns the repository's own .cdc files (sorted by path), read once per process.
func repoCorpus() []corpusFile {
	corpusOnce.Do(func() {
		var paths []string
		_ = filepath.WalkDir("/repo", func(p string, d os.DirEntry, err error) error {
			if err != nil {
				return nil
			}
			if d.IsDir() && (d.Name() == ".git" || d.Name() == "node_modules") {
				return filepath.SkipDir
			}
			if !d.IsDir() && strings.HasSuffix(p, ".cdc") {
				paths = append(paths, p)
			}
			return nil
		})
		sort.Strings(paths)
		for _, p := range paths {
			b, err := os.ReadFile(p)
			if err != nil || len(b) > 200_000 {
				continue
			}
			corpusFiles = append(corpusFiles, corpusFile{Path: p, Src: b})
		}
	})
	return corpusFiles
}

// ---------------------------------------------------------------- guarded calls

type panicInfo struct {
	Value string
	Site  string
	Stack string
}

// guard runs f and converts a Go panic into a panicInfo keyed by the first frame inside cadence.
func guard(f func()) (pi *panicInfo) {
	defer func() {
		if r := recover(); r != nil {
			st := string(debug.Stack())
			pi = &panicInfo{Value: clipS(fmt.Sprint(r), 300), Site: panicSite(st), Stack: clipS(st, 5000)}
		}
	}()
	f()
	return nil
}

// panicSite returns the function of the first cadence frame below the runtime's panic frames.
func panicSite(stack string) string {
	lines := strings.Split(stack, "\n")
	seenPanic := false
	for _, l := range lines {
		l = strings.TrimSpace(l)
		if strings.HasPrefix(l, "panic(") || strings.HasPrefix(l, "runtime.") {
			seenPanic = true
			continue
		}
		if !seenPanic {
			continue
		}
		if helperFrame(l) {
			continue
		}
		if strings.HasPrefix(l, "github.com/onflow/cadence") || strings.HasPrefix(l, "github.com/turbolent/prettier") {
			if i := strings.LastIndex(l, "("); i > 0 {
				l = l[:i]
			}
			return strings.TrimPrefix(l, "github.com/onflow/cadence/")
		}
	}
	return "unknown"
}

// firstCadenceFrames returns up to n distinct cadence frames (functions) of a stack trace, skipping
// the recover/wrap machinery, for keying internal errors that carry their stack.
func stackSite(stack string) string {
	lines := strings.Split(stack, "\n")
	seenPanic := false
	for _, l := range lines {
		l = strings.TrimSpace(l)
		if strings.HasPrefix(l, "panic(") {
			seenPanic = true
			continue
		}
		if !seenPanic {
			continue
		}
		if strings.HasPrefix(l, "runtime.") || helperFrame(l) {
			continue
		}
		if strings.HasPrefix(l, "github.com/onflow/cadence") {
			if i := strings.LastIndex(l, "("); i > 0 {
				l = l[:i]
			}
			return strings.TrimPrefix(l, "github.com/onflow/cadence/")
		}
	}
	// no panic frame: the error was constructed directly; use the first non-errors-package cadence frame
	for _, l := range lines {
		l = strings.TrimSpace(l)
		if strings.HasPrefix(l, "github.com/onflow/cadence/") && !helperFrame(l) {
			if i := strings.LastIndex(l, "("); i > 0 {
				l = l[:i]
			}
			return strings.TrimPrefix(l, "github.com/onflow/cadence/")
		}
	}
	return "unknown"
}

// helperFrame: generic accessors that appear on top of many unrelated call sites.
func helperFrame(l string) bool {
	for _, h := range []string{".checkProgress(", "lexer.Token.Source(", ".tokenSource(", ".currentTokenSource(", "(*parser).isToken(", "errors.New", "(*parser).report(", "(*parser).next(", "(*parser).mustOne("} {
		if strings.Contains(l, h) {
			return true
		}
	}
	return strings.HasPrefix(l, "github.com/onflow/cadence/errors.")
}

func clipS(s string, n int) string {
	if len(s) > n {
		return s[:n] + "…"
	}
	return s
}

func firstLine(s string) string {
	if i := strings.IndexByte(s, '\n'); i >= 0 {
		return s[:i]
	}
	return s
}

// stripDigits normalises run-specific numbers out of a message used inside a key.
func stripDigits(s string) string {
	var b strings.Builder
	prevDigit := false
	for _, r := range s {
		if r >= '0' && r <= '9' {
			if !prevDigit {
				b.WriteByte('N')
			}
			prevDigit = true
			continue
		}
		prevDigit = false
		b.WriteRune(r)
	}
	return b.String()
}

// ---------------------------------------------------------------- parsing

func parseProg(src []byte) (prog *ast.Program, err error, pi *panicInfo) {
	pi = guard(func() {
		prog, err = parser.ParseProgram(nil, src, parser.Config{})
	})
	return
}

// ---------------------------------------------------------------- AST JSON

func isPosKey(k string) bool {
	return k == "Range" || strings.HasSuffix(k, "Pos") || strings.HasSuffix(k, "Position")
}

// astTree marshals the program with the AST's own MarshalJSON and decodes it into a generic tree.
func astTree(p *ast.Program) (any, error) {
	b, err := json.Marshal(p)
	if err != nil {
		return nil, err
	}
	dec := json.NewDecoder(bytes.NewReader(b))
	dec.UseNumber()
	var v any
	if err := dec.Decode(&v); err != nil {
		return nil, err
	}
	return v, nil
}

// stripTree removes exactly the position-bearing keys (Range, *Pos, *Position) and doc strings.
// unstripped counts objects that still look like a position afterwards (a new key name).
func stripTree(v any, unstripped *int) any {
	switch x := v.(type) {
	case map[string]any:
		_, hasOff := x["Offset"]
		_, hasLine := x["Line"]
		_, hasCol := x["Column"]
		if hasOff && hasLine && hasCol && len(x) == 3 && unstripped != nil {
			*unstripped++
		}
		out := make(map[string]any, len(x))
		for k, e := range x {
			if isPosKey(k) || k == "DocString" {
				continue
			}
			out[k] = stripTree(e, unstripped)
		}
		return out
	case []any:
		out := make([]any, len(x))
		for i, e := range x {
			out[i] = stripTree(e, unstripped)
		}
		return out
	default:
		return v
	}
}

func canon(v any) string {
	b, _ := json.Marshal(v) // map keys are sorted by encoding/json
	return string(b)
}

// sortImports reorders the top-level import declarations of a stripped tree canonically
// (imports compared as a multiset; everything else stays in order).
func sortImports(v any) any {
	m, ok := v.(map[string]any)
	if !ok {
		return v
	}
	decls, ok := m["Declarations"].([]any)
	if !ok {
		return v
	}
	var idx []int
	var imps []string
	byStr := map[string]any{}
	for i, d := range decls {
		if dm, ok := d.(map[string]any); ok && dm["Type"] == "ImportDeclaration" {
			idx = append(idx, i)
			s := canon(d)
			imps = append(imps, s)
			byStr[s] = d
		}
	}
	sort.Strings(imps)
	out := make([]any, len(decls))
	copy(out, decls)
	for k, i := range idx {
		out[i] = byStr[imps[k]]
	}
	nm := make(map[string]any, len(m))
	for k, e := range m {
		nm[k] = e
	}
	nm["Declarations"] = out
	return nm
}

type astDiff struct {
	Node   string // kind of the innermost node containing the first difference
	Field  string // field of that node under which the difference lies
	Parent string // kind of that node's parent node
	Path   string
	A, B   string
}

func (d *astDiff) Key() string {
	return fmt.Sprintf("%s.%s<%s", d.Node, d.Field, d.Parent)
}

func nodeKind(v any) string {
	if m, ok := v.(map[string]any); ok {
		if t, ok := m["Type"].(string); ok {
			return t
		}
	}
	return ""
}

// firstDiff walks two stripped trees in parallel (sorted key order) and reports the first difference.
func firstDiff(a, b any) *astDiff {
	type frame struct{ kind string }
	var find func(a, b any, node, parent, field, path string) *astDiff
	find = func(a, b any, node, parent, field, path string) *astDiff {
		if reflect.DeepEqual(a, b) {
			return nil
		}
		mk := func() *astDiff {
			return &astDiff{Node: node, Field: field, Parent: parent, Path: path, A: clipS(canon(a), 300), B: clipS(canon(b), 300)}
		}
		switch x := a.(type) {
		case map[string]any:
			y, ok := b.(map[string]any)
			if !ok {
				return mk()
			}
			ka, kb := nodeKind(x), nodeKind(y)
			if ka != kb {
				d := mk()
				d.A, d.B = ka+" "+d.A, kb+" "+d.B
				if ka != "" && kb != "" {
					d.Field = field + "(" + ka + "->" + kb + ")"
				}
				return d
			}
			n, p := node, parent
			if ka != "" {
				n, p = ka, node
			}
			keys := make([]string, 0, len(x))
			for k := range x {
				keys = append(keys, k)
			}
			for k := range y {
				if _, ok := x[k]; !ok {
					keys = append(keys, k)
				}
			}
			sort.Strings(keys)
			for _, k := range keys {
				f := field
				if ka != "" {
					f = k
				}
				if d := find(x[k], y[k], n, p, f, path+"."+k); d != nil {
					return d
				}
			}
			return mk()
		case []any:
			y, ok := b.([]any)
			if !ok {
				return mk()
			}
			for i := 0; i < len(x) && i < len(y); i++ {
				if d := find(x[i], y[i], node, parent, field, fmt.Sprintf("%s[%d]", path, i)); d != nil {
					return d
				}
			}
			d := mk()
			d.Field = field + "(len)"
			d.A, d.B = fmt.Sprintf("len %d", len(x)), fmt.Sprintf("len %d", len(y))
			return d
		default:
			return mk()
		}
	}
	return find(a, b, "Program", "", "", "")
}

// skeleton returns the pre-order sequence of node kinds of a (small) program, clipped, for keys of
// minimised inputs.
func skeleton(p *ast.Program, max int) string {
	var ks []string
	ast.Inspect(p, func(e ast.Element) bool {
		if e == nil {
			return false
		}
		if e.ElementType() != ast.ElementTypeProgram {
			ks = append(ks, e.ElementType().String())
		}
		return true
	})
	if len(ks) > max {
		ks = append(ks[:max], "…")
	}
	return strings.Join(ks, ">")
}

// innermostElement returns the kind of the innermost AST element whose range contains offset,
// and the kind of its parent.
func innermostElement(p *ast.Program, offset int) (string, string) {
	kind, parent := "Program", ""
	var stack []string
	var walk func(e ast.Element)
	walk = func(e ast.Element) {
		if e == nil || reflect.ValueOf(e).Kind() == reflect.Ptr && reflect.ValueOf(e).IsNil() {
			return
		}
		in := true
		if e.ElementType() != ast.ElementTypeProgram {
			s := e.StartPosition().Offset
			en := e.EndPosition(nil).Offset
			in = s <= offset && offset <= en
		}
		if !in {
			return
		}
		if e.ElementType() != ast.ElementTypeProgram {
			parent = "Program"
			if len(stack) > 0 {
				parent = stack[len(stack)-1]
			}
			kind = e.ElementType().String()
		}
		stack = append(stack, e.ElementType().String())
		e.Walk(walk)
		stack = stack[:len(stack)-1]
	}
	walk(p)
	return kind, parent
}

// ---------------------------------------------------------------- reflective canonical form
//
// A linear-time structural rendering of AST nodes used as a fast pre-check: exported fields (plus the
// unexported declaration lists), without positions, doc strings, caches and back-pointers. The AST's own
// JSON (stripTree) stays the authority: a difference found here is confirmed with it, and equal verdicts
// are cross-checked against it on a sample (monitor reflect_json_disagree must stay 0).

var (
	rtPosition = reflect.TypeOf(ast.Position{})
	rtRange    = reflect.TypeOf(ast.Range{})
	rtBigInt   = reflect.TypeOf(big.Int{})
)

func reflCanon(w *bytes.Buffer, v reflect.Value, depth int) {
	if depth > 20000 {
		w.WriteString("<deep>")
		return
	}
	switch v.Kind() {
	case reflect.Ptr:
		if v.IsNil() {
			w.WriteString("~")
			return
		}
		if v.Type().Elem() == rtBigInt {
			if v.CanInterface() {
				w.WriteString(v.Interface().(*big.Int).String())
				return
			}
		}
		reflCanon(w, v.Elem(), depth+1)
	case reflect.Interface:
		if v.IsNil() {
			w.WriteString("~")
			return
		}
		reflCanon(w, v.Elem(), depth+1)
	case reflect.Struct:
		t := v.Type()
		if t == rtPosition || t == rtRange {
			return
		}
		if t == rtBigInt {
			if v.CanAddr() && v.Addr().CanInterface() {
				w.WriteString(v.Addr().Interface().(*big.Int).String())
			}
			return
		}
		w.WriteString(t.Name())
		w.WriteByte('{')
		for i := 0; i < t.NumField(); i++ {
			sf := t.Field(i)
			if sf.Type == rtPosition || sf.Type == rtRange || isPosKey(sf.Name) || sf.Name == "DocString" {
				continue
			}
			if !sf.IsExported() && sf.Name != "declarations" {
				continue
			}
			if sf.Tag.Get("json") == "-" {
				ft := sf.Type
				if !(ft == rtBigInt || ft.Kind() == reflect.Ptr && ft.Elem() == rtBigInt) {
					continue
				}
			}
			w.WriteString(sf.Name)
			w.WriteByte(':')
			reflCanon(w, v.Field(i), depth+1)
			w.WriteByte(';')
		}
		w.WriteByte('}')
	case reflect.Slice, reflect.Array:
		if v.Kind() == reflect.Slice && v.Type().Elem().Kind() == reflect.Uint8 {
			w.WriteString(strconv.Quote(string(v.Bytes())))
			return
		}
		w.WriteByte('[')
		for i := 0; i < v.Len(); i++ {
			reflCanon(w, v.Index(i), depth+1)
			w.WriteByte(',')
		}
		w.WriteByte(']')
	case reflect.String:
		w.WriteString(strconv.Quote(v.String()))
	case reflect.Bool:
		if v.Bool() {
			w.WriteByte('T')
		} else {
			w.WriteByte('F')
		}
	case reflect.Int, reflect.Int8, reflect.Int16, reflect.Int32, reflect.Int64:
		w.WriteString(strconv.FormatInt(v.Int(), 10))
	case reflect.Uint, reflect.Uint8, reflect.Uint16, reflect.Uint32, reflect.Uint64, reflect.Uintptr:
		w.WriteString(strconv.FormatUint(v.Uint(), 10))
	case reflect.Float32, reflect.Float64:
		w.WriteString(strconv.FormatFloat(v.Float(), 'g', -1, 64))
	case reflect.Map:
		keys := v.MapKeys()
		strs := make([]string, 0, len(keys))
		for _, k := range keys {
			var b bytes.Buffer
			reflCanon(&b, k, depth+1)
			b.WriteByte('=')
			reflCanon(&b, v.MapIndex(k), depth+1)
			strs = append(strs, b.String())
		}
		sort.Strings(strs)
		w.WriteString(strings.Join(strs, "|"))
	default:
		w.WriteString("?")
	}
}

// nodeCanon is the reflective canonical form of any AST node.
func nodeCanon(n any) string {
	var b bytes.Buffer
	reflCanon(&b, reflect.ValueOf(n), 0)
	return b.String()
}

// progCanon is the reflective canonical form of a program; with sortImports the import declarations
// are put into canonical order among the positions they occupy.
func progCanon(p *ast.Program, sortImp bool) string {
	decls := p.Declarations()
	cs := make([]string, len(decls))
	var idx []int
	var imps []string
	for i, d := range decls {
		cs[i] = nodeCanon(d)
		if _, ok := d.(*ast.ImportDeclaration); ok && sortImp {
			idx = append(idx, i)
			imps = append(imps, cs[i])
		}
	}
	sort.Strings(imps)
	for k, i := range idx {
		cs[i] = imps[k]
	}
	return strings.Join(cs, "\n")
}
