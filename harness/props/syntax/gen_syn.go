package syntax

import (
	"fmt"
	"math/rand/v2"
	"strings"
)

// Grammar-based generator of parseable (not necessarily well-typed) Cadence sources.
//
// The generator does not build text directly: it emits a list of tokens, each carrying the
// lexical constraint of the boundary *before* it (may whitespace / newlines / comments appear
// there?) and a preferred plain separator.  Renderers turn the list into text: plainly
// (canonical layout), with random whitespace (C37/C38) or with comments, blank lines and
// semicolons at the boundaries (C39).

type glue uint8

const (
	gFree  glue = iota // any trivia (spaces, newlines, comments) may precede the token
	gNoNL              // spaces and single-line block comments may precede, no newline
	gTight             // nothing may precede: the token is adjacent to the previous one
	gStmt              // statement boundary: a newline or a semicolon must precede
)

type sepKind uint8

const (
	sNone sepKind = iota
	sSpace
	sLine
)

type gtok struct {
	s   string
	g   glue
	sep sepKind
	ind int
	ctx string // innermost construct the boundary before this token belongs to
}

type synGen struct {
	r        *rand.Rand
	toks     []gtok
	ind      int
	ctx      []string
	feat     map[string]int
	ltBudget int // remaining `<` comparisons / type-argument invocations (token replay limit of the parser)
	idn      int
	// pending boundary for the next emitted token
	pg   glue
	ps   sepKind
	pset bool
	// size control
	size int
	// lastNumeric: the last atom was a number literal (a following `.member` would lex as a fixed-point literal)
	lastNumeric bool
	// noRef: the next type must not start with `&` (would lex as `&&`)
	noRef bool
}

func newSynGen(r *rand.Rand) *synGen {
	return &synGen{r: r, feat: map[string]int{}, ltBudget: 6}
}

func (g *synGen) f(name string) { g.feat[name]++ }

func (g *synGen) push(c string) { g.ctx = append(g.ctx, c) }
func (g *synGen) pop()          { g.ctx = g.ctx[:len(g.ctx)-1] }
func (g *synGen) cur() string {
	if len(g.ctx) == 0 {
		return "program"
	}
	return g.ctx[len(g.ctx)-1]
}

// e emits a token with an explicit boundary.
func (g *synGen) e(s string, gl glue, sp sepKind) {
	if g.pset {
		gl, sp = g.pg, g.ps
		g.pset = false
	}
	if len(g.toks) == 0 {
		sp = sNone
	}
	g.toks = append(g.toks, gtok{s: s, g: gl, sep: sp, ind: g.ind, ctx: g.cur()})
	g.size++
}

// next forces the boundary of the next emitted token.
func (g *synGen) next(gl glue, sp sepKind) { g.pg, g.ps, g.pset = gl, sp, true }

func (g *synGen) w(s string)              { g.e(s, gFree, sSpace) } // word / operator surrounded by spaces
func (g *synGen) c(s string)              { g.e(s, gFree, sNone) }  // closer / comma / colon: no space before
func (g *synGen) t(s string)              { g.e(s, gTight, sNone) } // must be adjacent
func (g *synGen) nn(s string)             { g.e(s, gNoNL, sNone) }  // no newline before, rendered adjacent
func (g *synGen) nns(s string)            { g.e(s, gNoNL, sSpace) } // no newline before, rendered with a space
func (g *synGen) ln(s string)             { g.e(s, gFree, sLine) }  // on a new line
func (g *synGen) st(s string)             { g.e(s, gStmt, sLine) }  // statement start
func (g *synGen) open(s string)           { g.e(s, gFree, sSpace); g.next(gFree, sNone) }
func (g *synGen) openT(s string, gl glue) { g.e(s, gl, sNone); g.next(gFree, sNone) }

func (g *synGen) p(n int) bool { return g.r.IntN(100) < n }
func (g *synGen) n(k int) int  { return g.r.IntN(k) }

func pick[T any](g *synGen, xs []T) T { return xs[g.r.IntN(len(xs))] }

// ---------------------------------------------------------------- identifiers

var softKeywordIdents = []string{"from", "account", "all", "view", "to", "type", "remove", "attach"}
var plainIdents = []string{"a", "b", "c", "x", "y", "z", "foo", "bar", "baz", "value", "result", "self", "i", "n", "acct", "vault", "_tmp", "x1", "Y_2", "camelCase", "items", "key"}
var typeIdents = []string{"Int", "UInt8", "UInt64", "Int256", "UFix64", "Fix64", "String", "Bool", "Address", "AnyStruct", "AnyResource", "Void", "Never", "Character", "Type", "Path", "R", "S", "T", "Vault", "NFT", "Foo", "Bar", "I", "J", "C", "Account", "Word8"}
var entIdents = []string{"E", "F", "G", "Withdraw", "Mutate", "Insert", "Storage", "X", "Y"}

func (g *synGen) ident() string {
	if g.p(4) {
		g.f("ident:soft-keyword")
		return pick(g, softKeywordIdents[:6])
	}
	return pick(g, plainIdents)
}

// name is an identifier in a declaring position (declaration, field, parameter names).
func (g *synGen) name() string {
	if g.p(6) {
		g.f("ident:soft-keyword")
		return pick(g, softKeywordIdents)
	}
	g.idn++
	if g.p(50) {
		for {
			n := pick(g, plainIdents)
			if n != "self" {
				return n
			}
		}
	}
	return fmt.Sprintf("%s%d", pick(g, []string{"v", "f", "name", "k", "q"}), g.idn)
}

// label is an argument label: it is parsed as an expression first, so `attach` cannot be used.
func (g *synGen) label() string {
	for {
		n := g.name()
		if n != "attach" && n != "view" {
			return n
		}
	}
}

func (g *synGen) typeName() string { return pick(g, typeIdents) }

// ---------------------------------------------------------------- types

func (g *synGen) nominal() {
	g.push("nominal-type")
	defer g.pop()
	g.w(g.typeName())
	for g.p(20) {
		g.f("type:qualified")
		g.t(".")
		g.t(pick(g, typeIdents))
	}
}

func (g *synGen) entitlementList(closer string) {
	// E | E, F | E | F | mapping M
	g.push("entitlement-list")
	defer g.pop()
	switch g.n(6) {
	case 0:
		g.f("auth:mapping")
		g.e("mapping", gFree, sNone)
		g.w(pick(g, []string{"M", "N", "Identity", "C.M"}))
	case 1, 2:
		g.f("auth:single")
		g.e(pick(g, entIdents), gFree, sNone)
	case 3, 4:
		g.f("auth:conjunction")
		g.e(pick(g, entIdents), gFree, sNone)
		for i := 0; i <= g.n(2); i++ {
			g.c(",")
			g.w(pick(g, entIdents))
		}
	default:
		g.f("auth:disjunction")
		g.e(pick(g, entIdents), gFree, sNone)
		for i := 0; i <= g.n(2); i++ {
			g.w("|")
			g.w(pick(g, entIdents))
		}
	}
	g.c(closer)
}

// typ emits a type; d is the remaining nesting budget.
func (g *synGen) typ(d int) {
	g.push("type")
	defer g.pop()
	noRef := g.noRef
	g.noRef = false
	if d <= 0 || g.p(45) {
		g.f("type:nominal")
		g.nominal()
		g.typeSuffix()
		return
	}
	c := g.n(13)
	if noRef && (c == 3) {
		c = 7
	}
	switch c {
	case 0:
		g.f("type:variable-array")
		g.open("[")
		g.typ(d - 1)
		g.c("]")
	case 1:
		g.f("type:constant-array")
		g.open("[")
		g.typ(d - 1)
		g.c(";")
		g.w(pick(g, []string{"3", "0", "10", "0x10", "1_000", "0b11"}))
		g.c("]")
	case 2:
		g.f("type:dictionary")
		g.open("{")
		g.typ(d - 1)
		g.c(":")
		g.typ(d - 1)
		g.c("}")
	case 3:
		g.f("type:reference")
		g.w("&")
		g.next(gFree, sNone)
		g.noRef = true
		g.typ(d - 1)
		return // no optional suffix directly (binds to the referenced type)
	case 4:
		g.f("type:auth-reference")
		g.w("auth")
		g.openT("(", gFree)
		g.entitlementList(")")
		g.w("&")
		g.next(gFree, sNone)
		g.noRef = true
		g.typ(d - 1)
		return
	case 5:
		g.f("type:intersection")
		g.open("{")
		k := g.n(3)
		if k == 0 {
			g.f("type:intersection-empty")
		}
		for i := 0; i < k; i++ {
			if i > 0 {
				g.c(",")
				g.next(gFree, sSpace)
			}
			g.nominal()
		}
		g.c("}")
	case 6:
		g.f("type:function")
		if g.p(30) {
			g.f("type:view-function")
			g.w("view")
		}
		g.w("fun")
		g.openT("(", gFree)
		k := g.n(3)
		for i := 0; i < k; i++ {
			if i > 0 {
				g.c(",")
				g.next(gFree, sSpace)
			}
			g.typeAnn(d - 1)
		}
		g.c(")")
		if g.p(70) {
			g.c(":")
			g.typeAnn(d - 1)
		}
		return
	case 7:
		g.f("type:parenthesized")
		g.open("(")
		g.typ(d - 1)
		g.c(")")
	case 8, 9:
		g.f("type:instantiation")
		g.w(pick(g, []string{"Capability", "InclusiveRange", "Foo", "C.G"}))
		g.t("<")
		g.next(gFree, sNone)
		k := 1 + g.n(2)
		for i := 0; i < k; i++ {
			if i > 0 {
				g.c(",")
				g.next(gFree, sSpace)
			}
			g.typeAnn(d - 1)
		}
		g.c(">")
	case 10:
		g.f("type:optional-reference")
		g.open("(")
		g.w("&")
		g.next(gFree, sNone)
		g.nominal()
		g.c(")")
		g.t("?")
	default:
		g.f("type:nominal")
		g.nominal()
	}
	g.typeSuffix()
}

func (g *synGen) typeSuffix() {
	if g.p(25) {
		g.f("type:optional")
		g.t("?")
		if g.p(15) {
			g.f("type:double-optional")
			g.t("?")
		}
	}
}

func (g *synGen) typeAnn(d int) {
	g.push("type-annotation")
	defer g.pop()
	if g.p(20) {
		g.f("type:resource-annotation")
		g.w("@")
		g.next(gFree, sNone)
	}
	g.typ(d)
}

// ---------------------------------------------------------------- literals

func (g *synGen) digits(n int, set string) string {
	var b strings.Builder
	for i := 0; i < n; i++ {
		b.WriteByte(set[g.n(len(set))])
	}
	return b.String()
}

func (g *synGen) intLit() string {
	switch g.n(10) {
	case 0:
		g.f("lit:hex")
		s := "0x" + g.digits(1+g.n(8), "0123456789abcdefABCDEF")
		if g.p(30) {
			s += "_" + g.digits(1+g.n(4), "0123456789abcdef")
		}
		return s
	case 1:
		g.f("lit:binary")
		s := "0b" + g.digits(1+g.n(10), "01")
		if g.p(30) {
			s += "_" + g.digits(1+g.n(4), "01")
		}
		return s
	case 2:
		g.f("lit:octal")
		return "0o" + g.digits(1+g.n(8), "01234567")
	case 3:
		g.f("lit:decimal-underscore")
		return g.digits(1, "123456789") + g.digits(g.n(3), "0123456789") + "_" + g.digits(3, "0123456789")
	case 4:
		g.f("lit:decimal-big")
		return g.digits(1, "123456789") + g.digits(20+g.n(70), "0123456789")
	case 5:
		g.f("lit:decimal-leading-zero")
		return "0" + g.digits(g.n(3), "0123456789")
	default:
		g.f("lit:decimal")
		return g.digits(1+g.n(4), "0123456789")
	}
}

func (g *synGen) fixLit() string {
	g.f("lit:fixed-point")
	s := g.digits(1+g.n(4), "0123456789") + "." + g.digits(1+g.n(8), "0123456789")
	if g.p(15) {
		s = g.digits(1, "123456789") + "_" + g.digits(3, "0123456789") + "." + g.digits(1, "0123456789") + "_" + g.digits(2, "0123456789")
	}
	return s
}

var strPieces = []string{"hello", " ", "world", "a b", "x", "0", "é", "日本", "😀", "'", "-", "{}", "/* no comment */", "// neither", "(", ")", "\\\\(", "#"}
var strEscapes = []string{`\n`, `\t`, `\r`, `\0`, `\\`, `\"`, `\'`, `\u{41}`, `\u{1F600}`, `\u{e9}`, `\u{0}`, `\u{10FFFF}`, `\u{2028}`}

// strLit emits a string literal, possibly a template with interpolated expressions.
// A template is rendered as one tight token run so that no trivia is inserted inside it.
func (g *synGen) strLit(d int, allowTemplate bool) string {
	var b strings.Builder
	b.WriteByte('"')
	k := g.n(4)
	for i := 0; i < k; i++ {
		switch {
		case g.p(30):
			g.f("lit:string-escape")
			b.WriteString(pick(g, strEscapes))
		case allowTemplate && d > 1 && g.p(25):
			g.f("lit:string-template")
			sub := newSynGen(g.r)
			sub.ltBudget = 0
			sub.feat = g.feat
			inner := d - 2
			if inner > 3 {
				inner = 3
			}
			if g.p(15) && d > 3 {
				g.f("lit:string-template-nested")
				sub.w(sub.strLit(d-2, true))
			} else {
				sub.templateExpr(inner)
			}
			b.WriteString(`\(`)
			b.WriteString(renderPlainOneLine(sub.toks))
			b.WriteString(`)`)
		default:
			b.WriteString(pick(g, strPieces))
		}
	}
	b.WriteByte('"')
	g.f("lit:string")
	return b.String()
}

// templateExpr: expressions inside \( ... ): the lexer balances parentheses only, keep them simple
// but cover identifiers, member access, calls, arithmetic and nested parentheses.
func (g *synGen) templateExpr(d int) {
	switch g.n(6) {
	case 0:
		g.w(g.ident())
	case 1:
		g.w(g.ident())
		g.t(".")
		g.t(g.ident())
	case 2:
		g.w(g.ident())
		g.openT("(", gNoNL)
		if g.p(50) {
			g.w(g.intLit())
		}
		g.c(")")
	case 3:
		g.w(g.ident())
		g.w(pick(g, []string{"+", "-", "*", "??", "=="}))
		g.w(g.intLit())
	case 4:
		g.open("(")
		g.w(g.ident())
		g.w("+")
		g.w(g.intLit())
		g.c(")")
		g.w("*")
		g.w(g.ident())
	default:
		g.expr(d)
	}
}

func (g *synGen) path() {
	g.f("lit:path")
	g.w("/")
	g.t(pick(g, []string{"storage", "public", "private", "foo"}))
	g.t("/")
	g.t(pick(g, []string{"vault", "x", "flowTokenReceiver", "from", "a1"}))
}

// ---------------------------------------------------------------- expressions

var binOps = []string{"||", "&&", "==", "!=", "<", "<=", ">", ">=", "??", "|", "^", "&", "<<", ">>", "+", "-", "*", "/", "%"}

func (g *synGen) atom(d int) {
	g.lastNumeric = false
	c := g.n(16)
	if c >= 4 && c <= 7 {
		g.lastNumeric = true
	}
	switch c {
	case 0, 1, 2, 3:
		g.f("expr:identifier")
		g.w(g.ident())
	case 4, 5:
		g.f("expr:integer")
		g.w(g.intLit())
	case 6:
		g.w(g.fixLit())
	case 7:
		g.f("expr:negative-literal")
		if g.p(50) {
			g.w("-" + g.intLit())
		} else {
			g.w("-" + g.fixLit())
		}
	case 8, 9:
		g.w(g.strLit(d, true))
	case 10:
		g.f("expr:bool")
		g.w(pick(g, []string{"true", "false"}))
	case 11:
		g.f("expr:nil")
		g.w("nil")
	case 12:
		g.path()
	case 13:
		g.f("expr:empty-array")
		g.open("[")
		g.c("]")
	case 14:
		g.f("expr:empty-dictionary")
		g.open("{")
		g.c("}")
	default:
		g.f("expr:self-member")
		g.w("self")
		g.t(".")
		g.t(g.ident())
	}
}

func (g *synGen) args(d int) {
	g.push("argument-list")
	defer g.pop()
	k := g.n(4)
	if k == 0 {
		g.f("expr:invocation-empty-args")
	}
	for i := 0; i < k; i++ {
		if i > 0 {
			g.c(",")
			g.next(gFree, sSpace)
		}
		if g.p(40) {
			g.f("expr:labeled-argument")
			g.e(g.label(), gFree, sNone)
			if i > 0 {
				g.toks[len(g.toks)-1].sep = sSpace
			}
			g.c(":")
			g.next(gFree, sSpace)
		}
		g.expr(d - 1)
	}
	g.c(")")
}

func (g *synGen) block(sd, ed int, kind string) {
	g.push(kind)
	defer g.pop()
	g.open("{")
	k := g.n(4)
	if sd <= 1 {
		k = g.n(3)
	}
	if k == 0 {
		g.f("stmt:empty-block")
		g.c("}")
		return
	}
	g.ind++
	for i := 0; i < k; i++ {
		g.stmt(sd-1, ed)
	}
	g.ind--
	g.ln("}")
}

func (g *synGen) conditions(d int, kw string) {
	g.push(kw + "-conditions")
	defer g.pop()
	g.f("decl:" + kw + "-conditions")
	g.next(gFree, sLine)
	g.w(kw)
	g.open("{")
	g.ind++
	k := 1 + g.n(2)
	for i := 0; i < k; i++ {
		g.next(gStmt, sLine)
		if g.p(20) {
			g.f("decl:emit-condition")
			g.w("emit")
			g.nominal()
			g.openT("(", gNoNL)
			g.args(d)
			continue
		}
		at := len(g.toks)
		g.expr(d)
		if i > 0 && !safeStart(g.toks[at].s) {
			// the previous condition would otherwise continue on this line (`a \n -b` is `a - b`)
			g.f("decl:condition-semicolon")
			semi := gtok{s: ";", g: gNoNL, sep: sNone, ind: g.ind, ctx: g.cur()}
			g.toks = append(g.toks[:at], append([]gtok{semi}, g.toks[at:]...)...)
			g.toks[at+1].g = gFree
		}
		if g.p(50) {
			g.f("decl:condition-message")
			g.c(":")
			g.w(g.strLit(d, false))
		}
	}
	g.ind--
	g.ln("}")
}

func safeStart(s string) bool {
	c := s[0]
	return c == '_' || c == '"' || c >= 'a' && c <= 'z' || c >= 'A' && c <= 'Z' || c >= '0' && c <= '9'
}

func (g *synGen) funcBlock(sd, ed int, conds bool) {
	g.push("function-block")
	defer g.pop()
	g.open("{")
	g.ind++
	any := false
	if conds && g.p(30) {
		g.conditions(ed, "pre")
		any = true
	}
	if conds && g.p(25) {
		g.conditions(ed, "post")
		any = true
	}
	k := g.n(4)
	if sd <= 1 {
		k = g.n(3)
	}
	for i := 0; i < k; i++ {
		g.stmt(sd-1, ed)
		any = true
	}
	g.ind--
	if any {
		g.ln("}")
	} else {
		g.f("decl:empty-function-block")
		g.c("}")
	}
}

func (g *synGen) params(d int, defaults bool) {
	g.push("parameter-list")
	defer g.pop()
	g.openT("(", gFree)
	k := g.n(4)
	if k == 0 {
		g.f("decl:empty-parameter-list")
	}
	for i := 0; i < k; i++ {
		if i > 0 {
			g.c(",")
			g.next(gFree, sSpace)
		}
		switch g.n(4) {
		case 0:
			g.f("decl:parameter-label")
			g.e(g.name(), gFree, sNone)
			if i > 0 {
				g.toks[len(g.toks)-1].sep = sSpace
			}
			g.w(g.name())
		case 1:
			g.f("decl:parameter-no-label")
			g.e("_", gFree, sNone)
			if i > 0 {
				g.toks[len(g.toks)-1].sep = sSpace
			}
			g.w(g.name())
		default:
			g.e(g.name(), gFree, sNone)
			if i > 0 {
				g.toks[len(g.toks)-1].sep = sSpace
			}
		}
		g.c(":")
		g.typeAnn(2)
		if defaults {
			g.f("decl:default-argument")
			g.w("=")
			g.postfixChain(2)
		}
	}
	g.c(")")
}

func (g *synGen) funcExpr(d int) {
	g.push("function-expression")
	defer g.pop()
	g.f("expr:function")
	if g.p(25) {
		g.f("expr:view-function")
		g.w("view")
	}
	g.w("fun")
	g.params(d, false)
	if g.p(70) {
		g.c(":")
		g.typeAnn(2)
	}
	g.funcBlock(1, d-2, g.p(20))
}

// postfixChain: primary expression followed by postfix operators.
func (g *synGen) postfixChain(d int) {
	g.push("postfix")
	defer g.pop()
	numeric := false
	if d > 1 && g.p(12) {
		g.f("expr:parenthesized")
		g.open("(")
		g.expr(d - 1)
		g.c(")")
	} else if d > 2 && g.p(4) {
		g.f("expr:parenthesized-function")
		g.open("(")
		g.funcExpr(d - 1)
		g.c(")")
	} else if d > 1 && g.p(8) {
		g.f("expr:array")
		g.open("[")
		k := 1 + g.n(3)
		for i := 0; i < k; i++ {
			if i > 0 {
				g.c(",")
				g.next(gFree, sSpace)
			}
			g.expr(d - 1)
		}
		g.c("]")
	} else if d > 1 && g.p(6) {
		g.f("expr:dictionary")
		g.open("{")
		k := 1 + g.n(2)
		for i := 0; i < k; i++ {
			if i > 0 {
				g.c(",")
				g.next(gFree, sSpace)
			}
			g.expr(d - 1)
			g.c(":")
			g.next(gFree, sSpace)
			g.expr(d - 1)
		}
		g.c("}")
	} else {
		g.atom(d)
		numeric = g.lastNumeric
	}
	k := 0
	for g.p(35) && k < 4 {
		k++
		c := g.n(9)
		if numeric {
			// `1.foo` lexes as a malformed fixed-point literal
			numeric = false
			c = 3 + g.n(4)
			if d <= 1 {
				c = 6
			}
		}
		switch c {
		case 0, 1:
			g.f("expr:member")
			g.c(".")
			g.t(g.ident())
		case 2:
			g.f("expr:optional-member")
			g.c("?.")
			g.t(g.ident())
		case 3, 4:
			if d > 1 {
				g.f("expr:invocation")
				g.openT("(", gNoNL)
				g.args(d)
			}
		case 5:
			if d > 1 {
				g.f("expr:index")
				g.openT("[", gNoNL)
				g.expr(d - 1)
				g.c("]")
			}
		case 6:
			g.f("expr:force")
			g.nn("!")
		case 7:
			if d > 1 && g.ltBudget > 0 {
				g.ltBudget--
				g.f("expr:invocation-type-arguments")
				g.c("<")
				g.next(gFree, sNone)
				n := g.n(3)
				for i := 0; i < n; i++ {
					if i > 0 {
						g.c(",")
						g.next(gFree, sSpace)
					}
					g.typeAnn(1)
				}
				g.c(">")
				g.openT("(", gFree)
				g.args(d)
			}
		default:
			g.f("expr:member")
			g.c(".")
			g.t(g.ident())
		}
	}
}

func (g *synGen) unary(d int) {
	if d > 1 && g.p(18) {
		op := pick(g, []string{"-", "!", "<-", "*", "-", "!"})
		g.f("expr:unary:" + op)
		g.w(op)
		if g.p(70) {
			g.next(gFree, sNone)
		}
		if g.p(25) {
			g.f("expr:unary-chain")
		}
		g.unary(d - 1)
		return
	}
	if d > 2 {
		switch g.n(40) {
		case 0:
			g.f("expr:create")
			g.w("create")
			g.nominal()
			g.openT("(", gNoNL)
			g.args(d)
			return
		case 1:
			g.f("expr:destroy")
			g.w("destroy")
			g.expr(d - 1)
			return
		case 2:
			g.f("expr:reference")
			g.w("&")
			g.next(gFree, sNone)
			g.postfixChain(d - 1)
			g.w("as")
			g.typ(2)
			return
		case 3:
			g.f("expr:attach")
			g.w("attach")
			g.nominal()
			g.openT("(", gNoNL)
			g.args(d)
			g.w("to")
			g.expr(d - 1)
			return
		case 4:
			g.funcExpr(d)
			return
		}
	}
	g.postfixChain(d)
}

// expr emits an expression; d is the remaining nesting budget (every sub-expression gets d-1,
// which over-approximates the parser's expression depth).
func (g *synGen) expr(d int) {
	g.push("expression")
	defer g.pop()
	if d <= 1 {
		g.unary(d)
		return
	}
	switch {
	case g.p(38):
		// binary chain with random operators: precedence / associativity shapes
		g.f("expr:binary")
		n := 1 + g.n(3)
		g.operand(d - 1)
		for i := 0; i < n; i++ {
			op := pick(g, binOps)
			if op == "<" {
				if g.ltBudget <= 0 {
					op = "<="
				} else {
					g.ltBudget--
				}
			}
			g.f("op:" + op)
			if op == ">>" {
				// two adjacent `>` tokens
				g.w(">")
				g.t(">")
			} else {
				g.w(op)
			}
			g.operand(d - 1)
		}
	case g.p(10):
		g.f("expr:conditional")
		g.operand(d - 1)
		g.w("?")
		g.expr(d - 1)
		g.w(":")
		g.expr(d - 1)
	case g.p(14):
		op := pick(g, []string{"as", "as?", "as!"})
		g.f("expr:cast:" + op)
		g.operand(d - 1)
		g.w(op)
		g.typeAnn(2)
		if g.p(30) {
			// cast in operand position of a following binary operator
			g.f("expr:cast-operand")
			op := pick(g, []string{"+", "==", "??", "&&", "*"})
			g.w(op)
			g.operand(d - 1)
		}
	default:
		g.unary(d)
	}
}

// operand: an operand of a binary/cast/conditional expression: unary chain, parenthesised sub-expression or nested binary
func (g *synGen) operand(d int) {
	if d > 1 && g.p(25) {
		g.f("expr:parenthesized")
		g.open("(")
		g.expr(d - 1)
		g.c(")")
		return
	}
	if d > 1 && g.p(8) {
		op := pick(g, []string{"as", "as?", "as!"})
		g.f("expr:cast-operand")
		g.unary(d - 1)
		g.w(op)
		g.typeAnn(1)
		return
	}
	g.unary(d)
}

// ---------------------------------------------------------------- statements

func (g *synGen) transfer() string {
	switch g.n(6) {
	case 0:
		g.f("transfer:move")
		return "<-"
	case 1:
		g.f("transfer:force-move")
		return "<-!"
	default:
		g.f("transfer:copy")
		return "="
	}
}

func (g *synGen) varDeclRest(d int, second bool) {
	g.w(g.name())
	if g.p(45) {
		g.f("decl:variable-type-annotation")
		g.c(":")
		g.typeAnn(3)
	}
	g.w(g.transfer())
	g.expr(d)
	if second && g.p(8) {
		g.f("decl:variable-second-transfer")
		g.w("<-")
		g.expr(d)
	}
}

func (g *synGen) ifStmt(sd, d int, depth int) {
	g.push("if-statement")
	defer g.pop()
	g.w("if")
	switch g.n(4) {
	case 0:
		g.f("stmt:if-let")
		g.w("let")
		g.varDeclRest(d, false)
	case 1:
		g.f("stmt:if-var")
		g.w("var")
		g.varDeclRest(d, false)
	default:
		g.expr(d)
	}
	g.block(sd, d, "block")
	if g.p(40) {
		g.w("else")
		if g.p(40) && depth < 3 {
			g.f("stmt:else-if")
			g.ifStmt(sd, d, depth+1)
		} else {
			g.f("stmt:else")
			g.block(sd, d, "block")
		}
	}
}

var simpleStmtCases = []int{0, 2, 3, 14, 15, 16, 17, 20, 21, 23, 25, 30, 31}

func (g *synGen) stmt(d, ed int) {
	g.push("statement")
	defer g.pop()
	g.next(gStmt, sLine)
	if ed < 1 {
		ed = 1
	}
	cs := g.n(34)
	if d <= 0 {
		cs = pick(g, simpleStmtCases)
	}
	switch cs {
	case 0, 1:
		g.f("stmt:return-value")
		g.w("return")
		g.next(gNoNL, sSpace)
		g.expr(ed)
	case 2:
		g.f("stmt:return")
		g.w("return")
		// a following statement on the next line is not the value; a following `}` ends the block
	case 3:
		g.f("stmt:break")
		g.w("break")
	case 4:
		g.f("stmt:continue")
		g.w("continue")
	case 5, 6, 7:
		g.f("stmt:if")
		g.ifStmt(d, ed, 0)
	case 8:
		g.f("stmt:guard")
		g.w("guard")
		if g.p(50) {
			g.f("stmt:guard-let")
			g.w(pick(g, []string{"let", "var"}))
			g.varDeclRest(ed, false)
		} else {
			g.expr(ed)
		}
		g.w("else")
		g.block(d, ed, "block")
	case 9, 10:
		g.f("stmt:while")
		g.w("while")
		g.expr(ed)
		g.block(d, ed, "block")
	case 11, 12:
		g.f("stmt:for")
		g.w("for")
		if g.p(30) {
			g.f("stmt:for-index")
			g.w(g.name())
			g.c(",")
		}
		g.w(g.name())
		g.w("in")
		g.expr(ed)
		g.block(d, ed, "block")
	case 13:
		g.f("stmt:switch")
		g.w("switch")
		g.expr(ed)
		g.open("{")
		k := g.n(4)
		for i := 0; i < k; i++ {
			g.next(gFree, sLine)
			if i == k-1 && g.p(60) {
				g.f("stmt:switch-default")
				g.w("default")
			} else {
				g.w("case")
				g.expr(ed)
			}
			g.c(":")
			g.ind++
			n := g.n(3)
			if n == 0 {
				g.f("stmt:switch-empty-case")
			}
			for j := 0; j < n; j++ {
				g.stmt(d-1, ed)
			}
			g.ind--
		}
		if k == 0 {
			g.f("stmt:switch-empty")
			g.c("}")
		} else {
			g.ln("}")
		}
	case 14:
		g.f("stmt:emit")
		g.w("emit")
		g.nominal()
		g.openT("(", gNoNL)
		g.args(ed)
	case 15:
		g.f("stmt:remove")
		g.w("remove")
		g.nominal()
		g.w("from")
		g.expr(ed)
	case 16, 17, 18, 19:
		kw := pick(g, []string{"let", "var"})
		g.f("stmt:variable-declaration:" + kw)
		g.w(kw)
		g.varDeclRest(ed, true)
	case 20, 21, 22:
		g.f("stmt:assignment")
		g.target(ed)
		g.w(g.transfer())
		g.expr(ed)
	case 23:
		g.f("stmt:swap")
		g.target(ed)
		g.w("<->")
		g.target(ed)
	case 24:
		g.f("stmt:nested-function-declaration")
		if g.p(25) {
			g.w("view")
		}
		g.w("fun")
		g.w(g.name())
		g.params(ed, false)
		if g.p(60) {
			g.c(":")
			g.typeAnn(2)
		}
		g.funcBlock(d, ed, true)
	case 25:
		g.f("stmt:destroy")
		g.w("destroy")
		g.expr(ed)
	case 26:
		if d > 1 && g.p(30) {
			g.f("stmt:nested-composite-declaration")
			g.composite(d-1, 3)
		} else {
			g.f("stmt:expression")
			g.exprStmt(ed)
		}
	case 28:
		// expression statement starting with a parenthesis: (fun () {...})(), (a ?? b).c()
		g.f("stmt:parenthesized-start")
		g.open("(")
		if g.p(50) {
			g.funcExpr(ed)
		} else {
			g.expr(ed)
		}
		g.c(")")
		if g.p(70) {
			g.openT("(", gNoNL)
			g.args(ed)
		} else {
			g.c(".")
			g.t(g.ident())
			g.openT("(", gNoNL)
			g.args(ed)
		}
	case 27:
		g.f("stmt:function-expression-statement")
		g.w("fun")
		g.params(ed, false)
		g.funcBlock(d, ed, false)
	default:
		g.f("stmt:expression")
		g.exprStmt(ed)
	}
	if g.p(12) {
		g.f("stmt:semicolon")
		g.nn(";")
	}
}

// exprStmt: an expression statement that does not begin with a declaration keyword or `{`
func (g *synGen) exprStmt(d int) {
	g.w(g.ident())
	switch g.n(4) {
	case 0:
		g.c(".")
		g.t(g.ident())
		g.openT("(", gNoNL)
		g.args(d)
	case 1:
		g.openT("(", gNoNL)
		g.args(d)
		for g.p(30) {
			g.c(".")
			g.t(g.ident())
			g.openT("(", gNoNL)
			g.args(d)
		}
	case 2:
		g.w(pick(g, binOps[5:]))
		g.expr(d)
	default:
		g.c("?.")
		g.t(g.ident())
		g.openT("(", gNoNL)
		g.args(d)
		g.nn("!")
	}
}

func (g *synGen) target(d int) {
	g.w(g.ident())
	for g.p(40) {
		if g.p(60) {
			g.c(".")
			g.t(g.ident())
		} else {
			g.openT("[", gNoNL)
			g.expr(d - 1)
			g.c("]")
		}
	}
}

// ---------------------------------------------------------------- declarations

func (g *synGen) access(level int) {
	// level: 0 top-level, 1 member
	if g.p(25) {
		g.f("access:none")
		return
	}
	g.push("access")
	defer g.pop()
	g.w("access")
	g.openT("(", gFree)
	switch g.n(10) {
	case 0, 1, 2, 3:
		g.f("access:all")
		g.e("all", gFree, sNone)
		g.c(")")
	case 4:
		g.f("access:self")
		g.e("self", gFree, sNone)
		g.c(")")
	case 5:
		g.f("access:contract")
		g.e("contract", gFree, sNone)
		g.c(")")
	case 6:
		g.f("access:account")
		g.e("account", gFree, sNone)
		g.c(")")
	default:
		g.f("access:entitlements")
		g.entitlementList(")")
	}
}

func (g *synGen) funcDecl(d int, member bool, inInterface bool) {
	g.push("function-declaration")
	defer g.pop()
	g.f("decl:function")
	g.next(gFree, sLine)
	g.access(1)
	if g.p(25) {
		g.f("decl:view-function")
		g.w("view")
	}
	g.w("fun")
	g.w(g.name())
	g.params(d, false)
	if g.p(65) {
		g.f("decl:function-return-type")
		g.c(":")
		g.typeAnn(3)
	}
	if member && inInterface && g.p(50) {
		g.f("decl:function-without-body")
		return
	}
	if inInterface {
		g.f("decl:interface-default-function")
	}
	g.funcBlock(d, 2+g.n(3), true)
}

func (g *synGen) field(d int) {
	g.push("field")
	defer g.pop()
	g.f("decl:field")
	g.next(gFree, sLine)
	g.access(1)
	switch g.n(5) {
	case 0:
		g.f("decl:field-no-kind")
	case 1, 2:
		g.w("var")
	default:
		g.w("let")
	}
	g.w(g.name())
	g.c(":")
	g.typeAnn(3)
}

func (g *synGen) specialFunc(d int, name string, body bool) {
	g.push("special-function")
	defer g.pop()
	g.f("decl:special-function:" + name)
	g.next(gFree, sLine)
	if name == "init" && g.p(20) {
		g.access(1)
	}
	if name == "init" && g.p(15) {
		g.f("decl:view-init")
		g.w("view")
	}
	g.w(name)
	g.params(d, false)
	if body {
		g.funcBlock(d, 2+g.n(3), true)
	}
}

func (g *synGen) conformances() {
	if g.p(35) {
		g.f("decl:conformances")
		g.c(":")
		g.next(gFree, sSpace)
		g.nominal()
		for g.p(30) {
			g.c(",")
			g.next(gFree, sSpace)
			g.nominal()
		}
	}
}

func (g *synGen) members(d int, kind string, iface bool, nest int) {
	g.push("members")
	defer g.pop()
	g.open("{")
	k := g.n(5)
	if k == 0 {
		g.f("decl:empty-members")
		g.c("}")
		return
	}
	g.ind++
	for i := 0; i < k; i++ {
		switch {
		case kind == "enum":
			g.f("decl:enum-case")
			g.next(gFree, sLine)
			g.access(1)
			g.w("case")
			g.w(g.name())
		default:
			switch g.n(14) {
			case 0, 1, 2, 3:
				g.field(d)
			case 4, 5, 6, 7:
				g.funcDecl(d, true, iface)
			case 8, 9:
				g.specialFunc(d, "init", !iface || g.p(50))
			case 10:
				if nest > 0 {
					g.f("decl:nested-composite")
					g.next(gFree, sLine)
					g.composite(d, nest-1)
				} else {
					g.field(d)
				}
			case 11:
				g.f("decl:nested-event")
				g.next(gFree, sLine)
				g.event(kind == "resource" && g.p(40))
			case 12:
				if nest > 0 {
					g.next(gFree, sLine)
					g.entitlement()
				} else {
					g.field(d)
				}
			default:
				g.f("decl:member-pragma")
				g.next(gFree, sLine)
				g.pragma()
			}
		}
		if g.p(10) {
			g.f("decl:member-semicolon")
			g.c(";")
		}
	}
	g.ind--
	g.ln("}")
}

func (g *synGen) composite(d int, nest int) {
	g.push("composite")
	defer g.pop()
	g.access(0)
	kind := pick(g, []string{"struct", "resource", "contract", "enum", "struct", "resource"})
	iface := kind != "enum" && g.p(30)
	g.w(kind)
	if iface {
		g.f("decl:interface:" + kind)
		g.w("interface")
	} else {
		g.f("decl:composite:" + kind)
	}
	g.w(pick(g, typeIdents[14:]))
	g.conformances()
	g.members(d, kind, iface, nest)
}

func (g *synGen) event(destroyed bool) {
	g.push("event")
	defer g.pop()
	g.f("decl:event")
	g.access(0)
	g.w("event")
	if destroyed {
		g.f("decl:event-resource-destroyed")
		g.w("ResourceDestroyed")
		g.params(2, true)
	} else {
		g.w(pick(g, []string{"Deposited", "Ev", "Withdrawn", "TokensMinted"}))
		g.params(2, false)
	}
}

func (g *synGen) entitlement() {
	g.push("entitlement")
	defer g.pop()
	g.access(0)
	g.w("entitlement")
	if g.p(40) {
		g.f("decl:entitlement-mapping")
		g.w("mapping")
		g.w(pick(g, []string{"M", "N", "Map"}))
		g.open("{")
		k := g.n(4)
		if k == 0 {
			g.c("}")
			return
		}
		g.ind++
		for i := 0; i < k; i++ {
			g.next(gFree, sLine)
			if g.p(25) {
				g.f("decl:entitlement-mapping-include")
				g.w("include")
				g.nominal()
			} else {
				g.w(pick(g, entIdents))
				g.w("->")
				g.w(pick(g, entIdents))
			}
		}
		g.ind--
		g.ln("}")
		return
	}
	g.f("decl:entitlement")
	g.w(pick(g, entIdents))
}

func (g *synGen) attachment(d int) {
	g.push("attachment")
	defer g.pop()
	g.f("decl:attachment")
	g.access(0)
	g.w("attachment")
	g.w(pick(g, []string{"A", "Att", "Extra"}))
	g.w("for")
	g.nominal()
	g.conformances()
	g.members(d, "attachment", false, 0)
}

func (g *synGen) pragma() {
	g.push("pragma")
	defer g.pop()
	g.f("decl:pragma")
	g.w("#")
	switch g.n(4) {
	case 0:
		g.e("allowAccountLinking", gFree, sNone)
	case 1:
		g.e("version", gFree, sNone)
		g.openT("(", gNoNL)
		g.w(g.strLit(1, false))
		g.c(")")
	case 2:
		g.e("interaction", gFree, sNone)
		g.openT("(", gNoNL)
		g.e("version", gFree, sNone)
		g.c(":")
		g.w(g.strLit(1, false))
		g.c(",")
		g.w("title")
		g.c(":")
		g.w(g.strLit(1, false))
		g.c(")")
	default:
		g.e(g.ident(), gFree, sNone)
	}
}

func (g *synGen) importDecl() {
	g.push("import")
	defer g.pop()
	g.f("decl:import")
	g.w("import")
	loc := func() {
		switch g.n(3) {
		case 0:
			g.f("decl:import-address")
			g.w("0x" + g.digits(1+g.n(8), "0123456789abcdef"))
		case 1:
			g.f("decl:import-string")
			g.w(pick(g, []string{`"./foo.cdc"`, `"FungibleToken"`, `"a b"`}))
		default:
			g.f("decl:import-identifier")
			g.w(pick(g, []string{"Crypto", "Test", "Foo"}))
		}
	}
	if g.p(25) {
		loc()
		return
	}
	g.f("decl:import-names")
	k := 1 + g.n(3)
	for i := 0; i < k; i++ {
		if i > 0 {
			g.c(",")
		}
		g.w(pick(g, typeIdents[14:]))
		if g.p(20) {
			g.f("decl:import-alias")
			g.w("as")
			g.w(pick(g, typeIdents[14:]) + "2")
		}
	}
	g.w("from")
	loc()
}

func (g *synGen) transaction(d int) {
	g.push("transaction")
	defer g.pop()
	g.f("decl:transaction")
	g.w("transaction")
	if g.p(50) {
		g.f("decl:transaction-parameters")
		g.params(d, false)
	}
	g.open("{")
	g.ind++
	any := false
	for g.p(35) {
		g.f("decl:transaction-field")
		g.next(gFree, sLine)
		g.w(pick(g, []string{"let", "var"}))
		g.w(g.name())
		g.c(":")
		g.typeAnn(3)
		any = true
	}
	prepare := g.p(65)
	if prepare {
		g.f("decl:transaction-prepare")
		g.next(gFree, sLine)
		g.w("prepare")
		g.params(d, false)
		g.funcBlock(d, 4, false)
		any = true
	}
	if prepare && g.p(30) {
		g.f("decl:transaction-pre")
		g.conditions(3, "pre")
		any = true
	}
	postFirst := prepare && g.p(15)
	if postFirst {
		g.f("decl:transaction-post-before-execute")
		g.conditions(3, "post")
		any = true
	}
	execute := g.p(60)
	if execute {
		g.f("decl:transaction-execute")
		g.next(gFree, sLine)
		g.w("execute")
		g.block(d, 4, "block")
		any = true
	}
	if !postFirst && (prepare || execute) && g.p(30) {
		g.f("decl:transaction-post")
		g.conditions(3, "post")
		any = true
	}
	g.ind--
	if any {
		g.ln("}")
	} else {
		g.f("decl:transaction-empty")
		g.c("}")
	}
}

func (g *synGen) topDecl(d int) {
	g.push("declaration")
	defer g.pop()
	g.next(gFree, sLine)
	declStart := len(g.toks)
	switch g.n(22) {
	case 0, 1:
		g.importDecl()
	case 2:
		g.pragma()
	case 3, 4, 5:
		g.f("decl:variable")
		g.access(0)
		g.w(pick(g, []string{"let", "var"}))
		g.varDeclRest(2+g.n(4), true)
	case 6, 7, 8, 9, 10:
		g.funcDecl(d, false, false)
	case 11, 12, 13, 14:
		g.composite(d, 2)
	case 15:
		g.event(false)
	case 16, 17:
		g.entitlement()
	case 18:
		g.attachment(d)
	default:
		g.transaction(d)
	}
	if g.p(8) && g.toks[declStart].s != "import" {
		g.f("decl:semicolon")
		g.c(";")
	}
}

// genProgram generates one program of roughly `decls` top-level declarations.
func genProgram(r *rand.Rand, decls int) *synGen {
	g := newSynGen(r)
	g.ltBudget = 5
	for i := 0; i < decls; i++ {
		g.topDecl(3)
		if g.size > 700 {
			break
		}
	}
	return g
}

// ---------------------------------------------------------------- renderers

func renderPlainOneLine(toks []gtok) string {
	var b strings.Builder
	for i, t := range toks {
		if i > 0 {
			switch t.sep {
			case sSpace, sLine:
				if t.g != gTight {
					b.WriteByte(' ')
				}
			}
		}
		b.WriteString(t.s)
	}
	return b.String()
}

func writeSep(b *strings.Builder, t gtok) {
	switch {
	case t.g == gTight:
	case t.sep == sLine:
		b.WriteByte('\n')
		for i := 0; i < t.ind; i++ {
			b.WriteString("    ")
		}
	case t.sep == sSpace:
		b.WriteByte(' ')
	}
}

// renderPlain renders the canonical layout.
func renderPlain(toks []gtok) string {
	var b strings.Builder
	for i, t := range toks {
		if i > 0 {
			writeSep(&b, t)
		}
		b.WriteString(t.s)
	}
	b.WriteByte('\n')
	return b.String()
}

var wsChoices = []string{" ", "  ", "\t", "\n", "\n\n", " \n  ", "\r\n"}

// renderVaried renders with random whitespace where the boundary permits it.
func renderVaried(toks []gtok, r *rand.Rand) string {
	var b strings.Builder
	for i, t := range toks {
		if i > 0 {
			if r.IntN(100) < 85 {
				writeSep(&b, t)
			} else {
				switch t.g {
				case gTight:
				case gNoNL:
					if t.sep != sNone || r.IntN(2) == 0 {
						b.WriteString(wsChoices[r.IntN(3)])
					}
				case gStmt:
					if r.IntN(2) == 0 {
						b.WriteString("; ")
					} else {
						b.WriteString(wsChoices[3+r.IntN(4)])
					}
				default:
					if t.sep == sNone && r.IntN(2) == 0 {
						// stay adjacent
					} else {
						b.WriteString(wsChoices[r.IntN(len(wsChoices))])
					}
				}
			}
		}
		b.WriteString(t.s)
	}
	if r.IntN(4) > 0 {
		b.WriteByte('\n')
	}
	return b.String()
}

// insertedComment records one generated comment.
type insertedComment struct {
	Text     string // exact comment text as written
	Kind     string // line | doc-line | block | doc-block | block-multiline | block-nested
	Boundary int    // index of the token it precedes (len(toks) = end of file)
	Ctx      string
	Prev     string
	Next     string
	SameLine bool // follows the previous token on the same line
}

type triviaOpts struct {
	Density    int // percent of boundaries receiving a comment; 0 = exactly one comment
	BlankLines int // percent of line boundaries receiving extra blank lines
	Semis      int // percent of statement boundaries rendered with `;`
}

func commentText(r *rand.Rand, id int, kind string) string {
	extra := []string{"", "", "", " note", " é日本", ` "quoted"`, " a*b / c", " TODO: x"}[r.IntN(8)]
	switch kind {
	case "line":
		x := extra
		if r.IntN(8) == 0 {
			x += " /* not a block"
		}
		return fmt.Sprintf("// c%d%s", id, x)
	case "doc-line":
		return fmt.Sprintf("/// c%d%s", id, extra)
	case "block":
		x := extra
		if r.IntN(8) == 0 {
			x += " // not a line"
		}
		return fmt.Sprintf("/* c%d%s */", id, x)
	case "doc-block":
		return fmt.Sprintf("/** c%d%s */", id, extra)
	case "block-multiline":
		return fmt.Sprintf("/* c%d%s\n   second line\n */", id, extra)
	default: // block-nested
		return fmt.Sprintf("/* c%d /* inner%s */ tail */", id, extra)
	}
}

func tokClass(s string) string {
	if s == "" {
		return "BOF/EOF"
	}
	c := s[0]
	switch {
	case c == '"':
		return "string"
	case c >= '0' && c <= '9':
		return "number"
	case c == '_' || c >= 'a' && c <= 'z' || c >= 'A' && c <= 'Z':
		if isKeywordTok(s) {
			return s
		}
		return "id"
	}
	if len(s) > 1 && c == '-' && s[1] >= '0' && s[1] <= '9' {
		return "number"
	}
	return s
}

var keywordToks = map[string]bool{}

func init() {
	for _, k := range strings.Fields("if else while break continue return true false nil let var fun as create destroy for in emit auth access all self init contract account import from pre post event struct resource interface entitlement mapping transaction prepare execute case switch default enum view attachment attach remove to guard include") {
		keywordToks[k] = true
	}
}

func isKeywordTok(s string) bool { return keywordToks[s] }

// afterOperand: the token continues or closes an expression whose operand precedes it. The parser does
// not accept "newline, comment" in front of such a token (`a \n /* c */ + b`, `( a \n // c \n )`),
// so a comment there is placed on the line of the previous token.
var afterOperandToks = map[string]bool{}

func init() {
	for _, o := range binOps {
		afterOperandToks[o] = true
	}
	for _, o := range strings.Fields("? : as as? as! . ?. ) ] , < >") {
		afterOperandToks[o] = true
	}
}

func afterOperand(t gtok) bool {
	if afterOperandToks[t.s] {
		return true
	}
	return t.s == "{" && (t.ctx == "block" || t.ctx == "statement")
}

// renderTrivia renders the token list with comments, blank lines and semicolons at the boundaries.
func renderTrivia(toks []gtok, r *rand.Rand, o triviaOpts) (string, []insertedComment) {
	var b strings.Builder
	var ins []insertedComment
	id := 0
	only := -1
	if o.Density == 0 {
		// exactly one comment, at a boundary that admits one
		for tries := 0; tries < 50; tries++ {
			k := r.IntN(len(toks) + 1)
			if k == len(toks) || toks[k].g != gTight {
				only = k
				break
			}
		}
	}
	indent := func(n int) {
		for i := 0; i < n; i++ {
			b.WriteString("    ")
		}
	}
	for i := 0; i <= len(toks); i++ {
		var t gtok
		eof := i == len(toks)
		if !eof {
			t = toks[i]
		} else {
			t = gtok{g: gFree, sep: sLine, ctx: "program"}
		}
		want := false
		if t.g != gTight {
			if o.Density == 0 {
				want = i == only
			} else {
				want = r.IntN(100) < o.Density
			}
		}
		semi := t.g == gStmt && i > 0 && r.IntN(100) < o.Semis
		if i > 0 && semi {
			b.WriteString(";")
		}
		if !want {
			if eof {
				b.WriteByte('\n')
				break
			}
			if i > 0 {
				if t.sep == sLine && t.g != gNoNL && t.g != gTight && r.IntN(100) < o.BlankLines {
					for k := r.IntN(3); k >= 0; k-- {
						b.WriteByte('\n')
					}
				}
				writeSep(&b, t)
			}
			b.WriteString(t.s)
			continue
		}
		// choose a comment kind permitted here
		var kind string
		if t.g == gNoNL {
			kind = []string{"block", "block", "doc-block", "block-nested"}[r.IntN(4)]
		} else {
			kind = []string{"line", "line", "line", "doc-line", "block", "block", "doc-block", "block-multiline", "block-nested"}[r.IntN(9)]
		}
		id++
		txt := commentText(r, id, kind)
		prev, nxt := "", ""
		if i > 0 {
			prev = tokClass(toks[i-1].s)
		}
		if !eof {
			nxt = tokClass(t.s)
		}
		nlBefore := false
		if i > 0 {
			if t.g != gNoNL && !afterOperand(t) && (t.sep == sLine && r.IntN(3) > 0 || r.IntN(4) == 0) {
				b.WriteByte('\n')
				indent(t.ind)
				nlBefore = true
			} else {
				b.WriteByte(' ')
			}
		}
		b.WriteString(txt)
		ins = append(ins, insertedComment{Text: txt, Kind: kind, Boundary: i, Ctx: t.ctx, Prev: prev, Next: nxt, SameLine: i > 0 && !nlBefore})
		if eof {
			b.WriteByte('\n')
			break
		}
		isLine := kind == "line" || kind == "doc-line"
		switch {
		case isLine:
			b.WriteByte('\n')
			indent(t.ind)
		case t.g == gNoNL:
			b.WriteByte(' ')
		case t.g == gStmt && !semi && !nlBefore && i > 0:
			b.WriteByte('\n')
			indent(t.ind)
		case t.sep == sLine || r.IntN(5) == 0:
			b.WriteByte('\n')
			indent(t.ind)
		default:
			b.WriteByte(' ')
		}
		b.WriteString(t.s)
	}
	return b.String(), ins
}
