package syntax

import (
	"math/rand/v2"
	"strings"
)

// Mutators for C37: hostile variations of (mostly valid) sources, and synthetic nesting bombs.

var mutVocab = []string{
	"(", ")", "[", "]", "{", "}", "<", ">", ",", ";", ":", ".", "?", "!", "@", "#", "&", "|", "^", "=", "+", "-", "*", "/", "%",
	"<-", "<-!", "<->", "<<", ">>", "<=", ">=", "==", "!=", "&&", "||", "??", "?.", "->", "//", "/*", "*/", "\"", "\\(", "\\", "'", "`", "$", "~",
	"if", "else", "while", "for", "in", "return", "break", "continue", "let", "var", "fun", "view", "as", "as?", "as!", "create", "destroy",
	"emit", "auth", "access", "all", "self", "init", "contract", "account", "import", "from", "pre", "post", "event", "struct", "resource",
	"interface", "entitlement", "mapping", "transaction", "prepare", "execute", "case", "switch", "default", "enum", "attachment", "attach",
	"remove", "to", "guard", "include", "pub", "priv", "static", "native", "nil", "true", "false", "try", "catch", "type",
	"x", "Int", "0", "1", "0x", "0b", "0o", "0Y", "1.", "1.0", "1_", "_1", "0x_", "\"a\"", "\"\\(x)\"", "\"\\u{}\"", "\"\\u{110000}\"", "\"\\q\"",
	"/storage/x", "/", "é", "\u2028", "\x00", "\xff", "\xc3", "\xe2\x82", "\n", "\r", "\t", " ",
}

func chunkStrings(src []byte) []string {
	cs := scanChunks(src)
	out := make([]string, len(cs))
	for i, c := range cs {
		out[i] = string(src[c.Start:c.End])
	}
	return out
}

// mutate applies 1..k random mutations to src and returns the mutant and the names of the mutation kinds.
func mutate(r *rand.Rand, src []byte, k int) ([]byte, []string) {
	var kinds []string
	b := append([]byte(nil), src...)
	for m := 0; m < k; m++ {
		if len(b) == 0 {
			b = []byte("x")
		}
		switch r.IntN(16) {
		case 0, 1:
			kinds = append(kinds, "token-insert")
			ts := chunkStrings(b)
			i := r.IntN(len(ts) + 1)
			ins := mutVocab[r.IntN(len(mutVocab))]
			ts = append(ts[:i], append([]string{ins}, ts[i:]...)...)
			b = []byte(strings.Join(ts, ""))
		case 2, 3:
			kinds = append(kinds, "token-delete")
			ts := chunkStrings(b)
			i := r.IntN(len(ts))
			ts = append(ts[:i], ts[i+1:]...)
			b = []byte(strings.Join(ts, ""))
		case 4:
			kinds = append(kinds, "token-duplicate")
			ts := chunkStrings(b)
			i := r.IntN(len(ts))
			n := 1 + r.IntN(3)
			dup := make([]string, 0, n)
			for j := 0; j < n; j++ {
				dup = append(dup, ts[i])
			}
			ts = append(ts[:i], append(dup, ts[i:]...)...)
			b = []byte(strings.Join(ts, ""))
		case 5, 6:
			kinds = append(kinds, "token-swap")
			ts := chunkStrings(b)
			i, j := r.IntN(len(ts)), r.IntN(len(ts))
			ts[i], ts[j] = ts[j], ts[i]
			b = []byte(strings.Join(ts, ""))
		case 7:
			kinds = append(kinds, "token-replace")
			ts := chunkStrings(b)
			i := r.IntN(len(ts))
			ts[i] = mutVocab[r.IntN(len(mutVocab))]
			b = []byte(strings.Join(ts, ""))
		case 8:
			kinds = append(kinds, "byte-flip")
			i := r.IntN(len(b))
			b[i] ^= 1 << r.IntN(8)
		case 9:
			kinds = append(kinds, "byte-insert")
			i := r.IntN(len(b) + 1)
			c := []byte{0, 0xff, 0x80, 0xc0, 0xe2, 0xf0, '"', '\\', '\n', '\r', '/', '*', '(', ')', '{', '}', '<', '.', '0', '_', ' '}[r.IntN(21)]
			if r.IntN(4) == 0 {
				c = byte(r.IntN(256))
			}
			b = append(b[:i], append([]byte{c}, b[i:]...)...)
		case 10:
			kinds = append(kinds, "byte-delete")
			i := r.IntN(len(b))
			b = append(b[:i], b[i+1:]...)
		case 11:
			kinds = append(kinds, "truncate")
			b = b[:r.IntN(len(b)+1)]
		case 12:
			kinds = append(kinds, "bracket-imbalance")
			var idx []int
			for i, c := range b {
				if strings.IndexByte("()[]{}<>", c) >= 0 {
					idx = append(idx, i)
				}
			}
			if len(idx) == 0 || r.IntN(3) == 0 {
				i := r.IntN(len(b) + 1)
				c := "()[]{}<>"[r.IntN(8)]
				b = append(b[:i], append([]byte{c}, b[i:]...)...)
			} else {
				i := idx[r.IntN(len(idx))]
				b = append(b[:i], b[i+1:]...)
			}
		case 13:
			kinds = append(kinds, "unterminated")
			// cut a closing quote / comment end
			s := string(b)
			var cands []int
			for i := 0; i < len(s); i++ {
				if s[i] == '"' || (s[i] == '*' && i+1 < len(s) && s[i+1] == '/') {
					cands = append(cands, i)
				}
			}
			if len(cands) > 0 {
				i := cands[r.IntN(len(cands))]
				b = append(b[:i], b[i+1:]...)
			} else {
				i := r.IntN(len(b) + 1)
				ins := []string{"\"abc", "/* open", "\"\\(", "\"\\(x", "\"\\u{"}[r.IntN(5)]
				b = append(b[:i], append([]byte(ins), b[i:]...)...)
			}
		case 14:
			kinds = append(kinds, "huge-literal")
			ts := chunkStrings(b)
			i := r.IntN(len(ts) + 1)
			n := 50 + r.IntN(3000)
			var lit string
			switch r.IntN(6) {
			case 0:
				lit = strings.Repeat("9", n)
			case 1:
				lit = "0x" + strings.Repeat("f", n)
			case 2:
				lit = "1." + strings.Repeat("1", n)
			case 3:
				lit = strings.Repeat("7", n) + "." + strings.Repeat("3", n)
			case 4:
				lit = "0b" + strings.Repeat("10", n/2)
			default:
				lit = "-" + strings.Repeat("1_", n/2) + "1"
			}
			ts = append(ts[:i], append([]string{" " + lit + " "}, ts[i:]...)...)
			b = []byte(strings.Join(ts, ""))
		default:
			kinds = append(kinds, "splice")
			// copy a random slice of the input to another place
			i, j := r.IntN(len(b)+1), r.IntN(len(b)+1)
			if i > j {
				i, j = j, i
			}
			if j-i > 200 {
				j = i + 200
			}
			seg := append([]byte(nil), b[i:j]...)
			k := r.IntN(len(b) + 1)
			b = append(b[:k], append(seg, b[k:]...)...)
		}
		if len(b) > 60_000 {
			b = b[:60_000]
		}
	}
	return b, kinds
}

// nestKinds lists the synthetic deep-nesting families.
var nestKinds = []string{
	"paren-expr", "array-expr", "dict-expr", "index-chain", "call-chain", "member-chain", "unary-minus", "unary-not", "unary-move", "unary-deref",
	"force-chain", "binary-left", "binary-right-nilcoalesce", "conditional-right", "cast-chain", "if-blocks", "while-blocks", "else-if-chain",
	"nested-functions", "nested-fun-expr", "nested-composites", "array-type", "dict-type", "optional-type", "reference-type", "paren-type",
	"instantiation-type", "function-type", "intersection-list", "string-template", "template-parens", "block-comment", "block-comment-open",
	"switch-cases", "arguments-wide", "array-wide", "statements-wide", "reference-expr", "create-chain", "attach-chain", "open-brackets-only",
	"open-braces-only", "open-parens-only", "type-args-invocation", "path-chain", "semicolons", "pragma-nest", "access-nest",
}

// nestBomb builds an input of the given family with nesting depth / width n.
func nestBomb(kind string, n int) string {
	rep := strings.Repeat
	switch kind {
	case "paren-expr":
		return "let x = " + rep("(", n) + "1" + rep(")", n)
	case "array-expr":
		return "let x = " + rep("[", n) + "1" + rep("]", n)
	case "dict-expr":
		return "let x = " + rep("{1:", n) + "1" + rep("}", n)
	case "index-chain":
		return "let x = a" + rep("[0]", n)
	case "call-chain":
		return "let x = f" + rep("()", n)
	case "member-chain":
		return "let x = a" + rep(".b", n)
	case "unary-minus":
		return "let x = " + rep("-", n) + "y"
	case "unary-not":
		return "let x = " + rep("!", n) + "y"
	case "unary-move":
		return "let x = " + rep("<-", n) + "y"
	case "unary-deref":
		return "let x = " + rep("*", n) + "y"
	case "force-chain":
		return "let x = y" + rep("!", n)
	case "binary-left":
		return "let x = 1" + rep(" + 1", n)
	case "binary-right-nilcoalesce":
		return "let x = a" + rep(" ?? a", n)
	case "conditional-right":
		return "let x = " + rep("a ? b : ", n) + "c"
	case "cast-chain":
		return "let x = a" + rep(" as Int", n)
	case "if-blocks":
		return "fun f() { " + rep("if true { ", n) + rep("} ", n) + "}"
	case "while-blocks":
		return "fun f() { " + rep("while true { ", n) + rep("} ", n) + "}"
	case "else-if-chain":
		return "fun f() { if a {} " + rep("else if a {} ", n) + "else {} }"
	case "nested-functions":
		return rep("fun f() { ", n) + rep("} ", n)
	case "nested-fun-expr":
		return "let x = " + rep("fun (): Int { return ", n) + "1" + rep(" }", n)
	case "nested-composites":
		return rep("struct S { ", n) + rep("} ", n)
	case "array-type":
		return "let x: " + rep("[", n) + "Int" + rep("]", n) + " = 1"
	case "dict-type":
		return "let x: " + rep("{Int:", n) + "Int" + rep("}", n) + " = 1"
	case "optional-type":
		return "let x: Int" + rep("?", n) + " = 1"
	case "reference-type":
		return "let x: " + rep("& ", n) + "Int = 1"
	case "paren-type":
		return "let x: " + rep("(", n) + "Int" + rep(")", n) + " = 1"
	case "instantiation-type":
		return "let x: " + rep("A<", n) + "Int" + rep(">", n) + " = 1"
	case "function-type":
		return "let x: " + rep("fun(", n) + "Int" + rep("): Int", n) + " = 1"
	case "intersection-list":
		return "let x: {" + rep("I, ", n) + "I} = 1"
	case "string-template":
		return "let x = " + rep("\"\\(", n) + "1" + rep(")\"", n)
	case "template-parens":
		return "let x = \"\\(" + rep("(", n) + "1" + rep(")", n) + ")\""
	case "block-comment":
		return rep("/*", n) + " x " + rep("*/", n) + " let x = 1"
	case "block-comment-open":
		return "let x = 1 " + rep("/*", n)
	case "switch-cases":
		return "fun f() { switch x { " + rep("case 1: break\n", n) + "} }"
	case "arguments-wide":
		return "let x = f(" + rep("1, ", n) + "1)"
	case "array-wide":
		return "let x = [" + rep("1, ", n) + "1]"
	case "statements-wide":
		return "fun f() { " + rep("x = 1; ", n) + "}"
	case "reference-expr":
		return "let x = " + rep("&", n) + "y as &Int"
	case "create-chain":
		return "let x <- " + rep("create R(a: <- ", n) + "y" + rep(")", n)
	case "attach-chain":
		return "let x <- " + rep("attach A() to ", n) + "y"
	case "open-brackets-only":
		return "let x = " + rep("[", n)
	case "open-braces-only":
		return "fun f() " + rep("{", n)
	case "open-parens-only":
		return "let x = " + rep("(", n)
	case "type-args-invocation":
		return "let x = f" + rep("<A", n) + rep(">", n) + "()"
	case "path-chain":
		return "let x = " + rep("/storage/a ", n)
	case "semicolons":
		return rep(";", n) + "let x = 1" + rep(";", n)
	case "pragma-nest":
		return "#" + rep("f(", n) + "1" + rep(")", n)
	case "access-nest":
		return rep("access(all) ", n) + "let x = 1"
	}
	return "let x = 1"
}
