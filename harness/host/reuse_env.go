package host

import (
	"encoding/binary"

	"github.com/onflow/cadence/common"
	"github.com/onflow/cadence/runtime"
)

// ReuseSession runs transactions the way long-lived embedders do: ONE runtime and ONE
// transaction Environment are kept and re-Configured for every transaction, and the host program
// cache (GetOrLoadProgram) is kept as well. Only the runtime.Storage is new per transaction (the
// runtime creates it). Every transaction gets a distinct TransactionLocation so the cached
// programs of earlier transactions are never confused with the current one.
//
// Used by the history checks (C22, C23) to catch state leaking from an aborted transaction into
// the next one through the environment (cached domain maps, contract values, program caches).
type ReuseSession struct {
	H      *Host
	Engine Engine
	Config runtime.Config

	rt  runtime.Runtime
	env runtime.Environment
	n   uint64
}

func (h *Host) NewReuseSession(engine Engine) *ReuseSession {
	return &ReuseSession{
		H:      h,
		Engine: engine,
		Config: DefaultConfig,
		rt:     runtime.NewRuntime(DefaultConfig),
		env:    newEnv(engine, false, DefaultConfig),
	}
}

// RunTx executes a transaction on the kept runtime and environment.
func (s *ReuseSession) RunTx(code string, args [][]byte, signers []common.Address, mem common.MemoryGauge, comp common.ComputationGauge) (out Outcome) {
	h := s.H
	h.Signers = signers
	s.n++
	var loc common.TransactionLocation
	loc[0] = 0x3
	binary.BigEndian.PutUint64(loc[8:16], s.n)
	defer func() {
		if r := recover(); r != nil {
			out.Escaped = r
		}
	}()
	ctx := runtime.Context{
		Interface:        h,
		Location:         loc,
		Environment:      s.env,
		MemoryGauge:      mem,
		ComputationGauge: comp,
		UseVM:            s.Engine != EngI,
	}
	out.Err = s.rt.ExecuteTransaction(runtime.Script{Source: []byte(code), Arguments: args}, ctx)
	return
}

// InvalidatePrograms drops the host program cache (as an embedder does after a contract update).
func (s *ReuseSession) InvalidatePrograms() {
	s.H.Programs = map[common.Location]*runtime.Program{}
}
