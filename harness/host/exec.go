package host

import (
	"fmt"
	"reflect"
	"strings"

	"github.com/onflow/cadence"
	"github.com/onflow/cadence/common"
	cerrors "github.com/onflow/cadence/errors"
	"github.com/onflow/cadence/runtime"
)

type Engine int

const (
	EngI  Engine = iota // tree-walking interpreter
	EngV                // bytecode VM
	EngVp               // bytecode VM + peephole optimisations
)

var AllEngines = []Engine{EngI, EngV, EngVp}
var TwoEngines = []Engine{EngI, EngV}

func (e Engine) String() string {
	switch e {
	case EngI:
		return "I"
	case EngV:
		return "V"
	case EngVp:
		return "Vp"
	}
	return "?"
}

type Options struct {
	Config      runtime.Config
	Mem         common.MemoryGauge
	Comp        common.ComputationGauge
	KeepPrograms bool // do not clear the host program cache before the execution
	ScriptLoc   byte
}

func newEnv(engine Engine, script bool, config runtime.Config) runtime.Environment {
	var env runtime.Environment
	switch engine {
	case EngI:
		if script {
			env = runtime.NewScriptInterpreterEnvironment(config)
		} else {
			env = runtime.NewBaseInterpreterEnvironment(config)
		}
	default:
		if script {
			env = runtime.NewScriptVMEnvironment(config)
		} else {
			env = runtime.NewBaseVMEnvironment(config)
		}
		if engine == EngVp {
			if !runtime.VerifSetPeepholeOptimizations(env, true) {
				panic("cannot enable peephole optimisations")
			}
		}
	}
	return env
}

// Outcome of one execution as seen at the API boundary.
type Outcome struct {
	Value cadence.Value
	Err   error
	// Escaped is a panic that escaped Execute* (must never happen)
	Escaped any
}

func (h *Host) context(engine Engine, script bool, loc common.Location, o Options) runtime.Context {
	if !o.KeepPrograms {
		h.Programs = map[common.Location]*runtime.Program{}
	}
	return runtime.Context{
		Interface:        h,
		Location:         loc,
		Environment:      newEnv(engine, script, o.Config),
		MemoryGauge:      o.Mem,
		ComputationGauge: o.Comp,
		UseVM:            engine != EngI,
	}
}

var DefaultConfig = runtime.Config{ResourceOwnerChangeHandlerEnabled: true}

// RunScript executes a script on a fresh runtime and environment.
func (h *Host) RunScript(engine Engine, code string, args [][]byte, o *Options) (out Outcome) {
	var opt Options
	if o != nil {
		opt = *o
	} else {
		opt.Config = DefaultConfig
	}
	rt := runtime.NewRuntime(opt.Config)
	loc := common.ScriptLocation{0x1, opt.ScriptLoc}
	defer func() {
		if r := recover(); r != nil {
			out.Escaped = r
		}
	}()
	ctx := h.context(engine, true, loc, opt)
	v, err := rt.ExecuteScript(runtime.Script{Source: []byte(code), Arguments: args}, ctx)
	out.Value = v
	out.Err = err
	return
}

// RunTx executes a transaction on a fresh runtime and environment.
func (h *Host) RunTx(engine Engine, code string, args [][]byte, signers []common.Address, o *Options) (out Outcome) {
	var opt Options
	if o != nil {
		opt = *o
	} else {
		opt.Config = DefaultConfig
	}
	rt := runtime.NewRuntime(opt.Config)
	h.Signers = signers
	loc := common.TransactionLocation{0x2, opt.ScriptLoc}
	defer func() {
		if r := recover(); r != nil {
			out.Escaped = r
		}
	}()
	ctx := h.context(engine, false, loc, opt)
	out.Err = rt.ExecuteTransaction(runtime.Script{Source: []byte(code), Arguments: args}, ctx)
	return
}

// Deploy adds a contract through a real deployment transaction.
func (h *Host) Deploy(engine Engine, addr common.Address, name, code string) Outcome {
	tx := fmt.Sprintf(`transaction { prepare(signer: auth(Contracts) &Account) { signer.contracts.add(name: "%s", code: "%x".decodeHex()) } }`, name, code)
	return h.RunTx(engine, tx, nil, []common.Address{addr}, nil)
}

func Addr(n uint64) common.Address {
	var a common.Address
	for i := 7; i >= 0; i-- {
		a[i] = byte(n)
		n >>= 8
	}
	return a
}

// ---------------------------------------------------------------- error classification

type ErrClass string

const (
	ClassNone     ErrClass = "none"
	ClassUser     ErrClass = "user"
	ClassInternal ErrClass = "internal"
	ClassExternal ErrClass = "external"
	ClassEscaped  ErrClass = "escaped-panic"
	ClassOther    ErrClass = "unclassified"
)

// walk visits every error in the chain/tree.
func walk(err error, f func(error)) {
	if err == nil {
		return
	}
	f(err)
	switch e := err.(type) {
	case interface{ Unwrap() []error }:
		for _, c := range e.Unwrap() {
			walk(c, f)
		}
	case interface{ Unwrap() error }:
		walk(e.Unwrap(), f)
	}
	if p, ok := err.(cerrors.ParentError); ok {
		for _, c := range p.ChildErrors() {
			walk(c, f)
		}
	}
}

func Walk(err error, f func(error)) { walk(err, f) }

// Classify walks the whole error chain: internal if any link is an InternalError; else external
// if any link is ExternalError / ExternalNonError; else user if any link is a UserError.
func Classify(o Outcome) ErrClass {
	if o.Escaped != nil {
		return ClassEscaped
	}
	if o.Err == nil {
		return ClassNone
	}
	internal, external, user := false, false, false
	walk(o.Err, func(e error) {
		switch e.(type) {
		case cerrors.ExternalError, cerrors.ExternalNonError, *cerrors.ExternalError, *cerrors.ExternalNonError:
			external = true
			return
		}
		if _, ok := e.(cerrors.InternalError); ok {
			internal = true
		}
		if _, ok := e.(cerrors.UserError); ok {
			user = true
		}
	})
	switch {
	case internal:
		return ClassInternal
	case external:
		return ClassExternal
	case user:
		return ClassUser
	}
	return ClassOther
}

// wrapper error types that do not tell the kind of failure
var wrapperTypes = map[string]bool{
	"runtime.Error": true, "interpreter.Error": true, "interpreter.PositionedError": true,
	"*sema.CheckerError": true, "sema.CheckerError": true, "*runtime.ParsingCheckingError": true, "runtime.ParsingCheckingError": true,
	"interpreter.StackTraceError": true, "parser.Error": true, "errors.DefaultUserError": true, "*fmt.wrapError": true,
	"errors.MemoryMeteringError": false,
}

// ErrKind is the Go type name of the deepest non-wrapper link of the error chain.
func ErrKind(err error) string {
	if err == nil {
		return ""
	}
	kind := ""
	first := true
	walk(err, func(e error) {
		tn := reflect.TypeOf(e).String()
		if wrapperTypes[tn] {
			return
		}
		if first || true {
			// deepest wins, but only along the first branch for parent errors
			kind = tn
			first = false
		}
	})
	if kind == "" {
		kind = reflect.TypeOf(err).String()
	}
	return kind
}

// ErrKinds lists all non-wrapper type names in the chain (outermost first).
func ErrKinds(err error) []string {
	var ks []string
	walk(err, func(e error) {
		tn := reflect.TypeOf(e).String()
		if !wrapperTypes[tn] {
			ks = append(ks, tn)
		}
	})
	return ks
}

func HasKind(err error, sub string) bool {
	for _, k := range ErrKinds(err) {
		if strings.Contains(k, sub) {
			return true
		}
	}
	return false
}

// ErrText is a short rendering of an error for witnesses.
func ErrText(o Outcome) string {
	if o.Escaped != nil {
		return fmt.Sprintf("ESCAPED PANIC: %v", o.Escaped)
	}
	if o.Err == nil {
		return ""
	}
	s := o.Err.Error()
	if len(s) > 1500 {
		s = s[:1500] + "…"
	}
	return s
}
