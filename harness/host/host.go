// Package host is the monitored runtime.Interface implementation: an in-memory ledger,
// an ordered event log of every callback, gauges, a contract code store and fault plans.
package host

import (
	"encoding/binary"
	"encoding/hex"
	"errors"
	"fmt"
	"sort"
	"strings"
	"sync"
	"time"

	"github.com/onflow/atree"
	"go.opentelemetry.io/otel/attribute"

	"github.com/onflow/cadence"
	"github.com/onflow/cadence/ast"
	"github.com/onflow/cadence/common"
	jsoncdc "github.com/onflow/cadence/encoding/json"
	"github.com/onflow/cadence/interpreter"
	"github.com/onflow/cadence/runtime"
	"github.com/onflow/cadence/sema"
	"github.com/onflow/cadence/stdlib"
)

// ---------------------------------------------------------------- ledger

type Ledger struct {
	Values  map[string][]byte // key = owner + "|" + key (raw bytes)
	Indices map[string]uint64
}

func NewLedger() *Ledger {
	return &Ledger{Values: map[string][]byte{}, Indices: map[string]uint64{}}
}

func LKey(owner, key []byte) string { return string(owner) + "|" + string(key) }

func (l *Ledger) Clone() *Ledger {
	n := NewLedger()
	for k, v := range l.Values {
		n.Values[k] = append([]byte(nil), v...)
	}
	for k, v := range l.Indices {
		n.Indices[k] = v
	}
	return n
}

// Dump is a canonical (sorted) rendering of the non-empty registers.
func (l *Ledger) Dump() []string {
	var keys []string
	for k, v := range l.Values {
		if len(v) > 0 {
			keys = append(keys, k)
		}
	}
	sort.Strings(keys)
	out := make([]string, 0, len(keys))
	for _, k := range keys {
		out = append(out, hex.EncodeToString([]byte(k))+"="+hex.EncodeToString(l.Values[k]))
	}
	return out
}

func (l *Ledger) DumpString() string { return strings.Join(l.Dump(), "\n") }

// Diff lists keys whose (non-empty) contents differ between two ledgers.
func (l *Ledger) Diff(o *Ledger) []string {
	var out []string
	seen := map[string]bool{}
	for k, v := range l.Values {
		seen[k] = true
		if string(v) != string(o.Values[k]) {
			out = append(out, hex.EncodeToString([]byte(k)))
		}
	}
	for k, v := range o.Values {
		if !seen[k] && len(v) > 0 {
			out = append(out, hex.EncodeToString([]byte(k)))
		}
	}
	sort.Strings(out)
	return out
}

// ---------------------------------------------------------------- event log

type Kind string

const (
	KGetValue       Kind = "GetValue"
	KSetValue       Kind = "SetValue"
	KValueExists    Kind = "ValueExists"
	KAllocSlab      Kind = "AllocateSlabIndex"
	KLog            Kind = "ProgramLog"
	KEmit           Kind = "EmitEvent"
	KUUID           Kind = "GenerateUUID"
	KAccountID      Kind = "GenerateAccountID"
	KGetCode        Kind = "GetCode"
	KGetProgram     Kind = "GetOrLoadProgram"
	KResolve        Kind = "ResolveLocation"
	KGetContract    Kind = "GetAccountContractCode"
	KUpdateContract Kind = "UpdateAccountContractCode"
	KRemoveContract Kind = "RemoveAccountContractCode"
	KContractNames  Kind = "GetAccountContractNames"
	KSigners        Kind = "GetSigningAccounts"
	KDecodeArg      Kind = "DecodeArgument"
	KBlockHeight    Kind = "GetCurrentBlockHeight"
	KBlockAt        Kind = "GetBlockAtHeight"
	KRandom         Kind = "ReadRandom"
	KVerifySig      Kind = "VerifySignature"
	KHash           Kind = "Hash"
	KBalance        Kind = "GetAccountBalance"
	KAvailBalance   Kind = "GetAccountAvailableBalance"
	KStorageUsed    Kind = "GetStorageUsed"
	KStorageCap     Kind = "GetStorageCapacity"
	KValidateKey    Kind = "ValidatePublicKey"
	KCreateAccount  Kind = "CreateAccount"
	KAddKey         Kind = "AddAccountKey"
	KGetKey         Kind = "GetAccountKey"
	KKeysCount      Kind = "AccountKeysCount"
	KRevokeKey      Kind = "RevokeAccountKey"
	KBLSPop         Kind = "BLSVerifyPOP"
	KBLSAggSig      Kind = "BLSAggregateSignatures"
	KBLSAggKey      Kind = "BLSAggregatePublicKeys"
	KOwnerChanged   Kind = "ResourceOwnerChanged"
	KRecover        Kind = "RecoverProgram"
	KCapGet         Kind = "ValidateAccountCapabilitiesGet"
	KCapPublish     Kind = "ValidateAccountCapabilitiesPublish"
	KMinVersion     Kind = "MinimumRequiredVersion"
	KDebugLog       Kind = "ImplementationDebugLog"
)

type Rec struct {
	Seq  int
	Kind Kind
	A    string // primary argument rendering
	B    string // secondary / result rendering
}

func (r Rec) String() string { return fmt.Sprintf("%d %s %s %s", r.Seq, r.Kind, r.A, r.B) }

// ---------------------------------------------------------------- faults

type FaultMode int

const (
	FaultError FaultMode = iota + 1
	FaultPanicError
	FaultPanicNonError
)

func (m FaultMode) String() string {
	switch m {
	case FaultError:
		return "error-return"
	case FaultPanicError:
		return "panic-error"
	case FaultPanicNonError:
		return "panic-nonerror"
	}
	return "none"
}

// Fault: the Nth (0-based, over all callbacks) host call fails.
type Fault struct {
	AtSeq int
	Mode  FaultMode
}

type Sentinel struct{ ID int }

func (s *Sentinel) Error() string { return fmt.Sprintf("verif-injected-host-fault-%d", s.ID) }

type NonErrorPanic struct{ ID int }

// ---------------------------------------------------------------- gauges

type GaugeRec struct {
	Mem  bool
	Kind uint
	Amt  uint64
}

type Gauge struct {
	Recs        []GaugeRec
	Record      bool
	CompTotal   uint64
	MemTotal    uint64
	CompLimit   uint64 // 0 = none
	MemLimit    uint64
	Calls       uint64
	RefuseComp  map[common.ComputationKind]bool
	OnCall      func()
	CompByKind  map[common.ComputationKind]uint64
	TrackByKind bool
}

type LimitError struct{ What string }

func (e LimitError) Error() string { return "verif gauge limit exceeded: " + e.What }

func (g *Gauge) MeterMemory(u common.MemoryUsage) error {
	g.Calls++
	if g.OnCall != nil {
		g.OnCall()
	}
	g.MemTotal += u.Amount
	if g.Record {
		g.Recs = append(g.Recs, GaugeRec{true, uint(u.Kind), u.Amount})
	}
	if g.MemLimit != 0 && g.MemTotal > g.MemLimit {
		return LimitError{"memory"}
	}
	return nil
}

func (g *Gauge) MeterComputation(u common.ComputationUsage) error {
	g.Calls++
	if g.OnCall != nil {
		g.OnCall()
	}
	g.CompTotal += u.Intensity
	if g.TrackByKind {
		if g.CompByKind == nil {
			g.CompByKind = map[common.ComputationKind]uint64{}
		}
		g.CompByKind[u.Kind] += u.Intensity
	}
	if g.Record {
		g.Recs = append(g.Recs, GaugeRec{false, uint(u.Kind), u.Intensity})
	}
	if g.RefuseComp != nil && g.RefuseComp[u.Kind] {
		return LimitError{"computation-kind-refused"}
	}
	if g.CompLimit != 0 && g.CompTotal > g.CompLimit {
		return LimitError{"computation"}
	}
	return nil
}

// ---------------------------------------------------------------- host

type Host struct {
	Ledger *Ledger
	Recs   []Rec
	seq    int

	Logs   []string
	Events []cadence.Event

	Codes    map[string][]byte // address location ID -> code
	Programs map[common.Location]*runtime.Program
	Shared   *SharedPrograms // optional: program cache shared with other hosts (C36)
	Signers  []common.Address

	UUID       uint64
	AccountIDs map[common.Address]uint64
	UUIDs      []uint64

	OwnerChanges []OwnerChange

	Random     func([]byte) error
	RandomReqs []int

	Faults      []Fault
	FaultsFired []int
	nextFaultID int

	// RecordReads: also log GetValue/ValueExists (off by default: volume)
	RecordReads bool
	// NoRecord switches the event log off entirely (C36 hot loops)
	NoRecord bool

	Height uint64

	KeyValidationError error
	NextAccount        uint64

	Keys map[common.Address][]*stdlib.AccountKey

	DecodeArgs func(b []byte, t cadence.Type) (cadence.Value, error)
}

type OwnerChange struct {
	UUID     uint64
	TypeID   string
	Old, New common.Address
}

func New() *Host {
	return &Host{
		Ledger:      NewLedger(),
		Codes:       map[string][]byte{},
		Programs:    map[common.Location]*runtime.Program{},
		AccountIDs:  map[common.Address]uint64{},
		Keys:        map[common.Address][]*stdlib.AccountKey{},
		Height:      7,
		NextAccount: 0x100,
	}
}

// ResetTrace clears the per-execution observations (not ledger, code or counters).
func (h *Host) ResetTrace() {
	h.Recs = nil
	h.seq = 0
	h.Logs = nil
	h.Events = nil
	h.UUIDs = nil
	h.OwnerChanges = nil
	h.RandomReqs = nil
	h.FaultsFired = nil
}

// call records a callback and applies the fault plan. It returns an error to be
// returned by the callback (FaultError) or panics (other modes).
func (h *Host) call(kind Kind, a, b string) error {
	seq := h.seq
	h.seq++
	if !h.NoRecord {
		h.Recs = append(h.Recs, Rec{Seq: seq, Kind: kind, A: a, B: b})
	}
	for _, f := range h.Faults {
		if f.AtSeq == seq {
			h.FaultsFired = append(h.FaultsFired, seq)
			id := seq
			switch f.Mode {
			case FaultError:
				return &Sentinel{ID: id}
			case FaultPanicError:
				panic(&Sentinel{ID: id})
			case FaultPanicNonError:
				panic(NonErrorPanic{ID: id})
			}
		}
	}
	return nil
}

func (h *Host) Seq() int { return h.seq }

func (h *Host) CountKind(k Kind) int {
	n := 0
	for _, r := range h.Recs {
		if r.Kind == k {
			n++
		}
	}
	return n
}

func (h *Host) TraceStrings() []string {
	out := make([]string, len(h.Recs))
	for i, r := range h.Recs {
		out[i] = r.String()
	}
	return out
}

var _ runtime.Interface = &Host{}

func (h *Host) ResolveLocation(identifiers []runtime.Identifier, location runtime.Location) ([]runtime.ResolvedLocation, error) {
	if err := h.call(KResolve, fmt.Sprint(location), fmt.Sprint(len(identifiers))); err != nil {
		return nil, err
	}
	addr, ok := location.(common.AddressLocation)
	if !ok || len(identifiers) == 0 {
		return []runtime.ResolvedLocation{{Location: location, Identifiers: identifiers}}, nil
	}
	var result []sema.ResolvedLocation
	for _, identifier := range identifiers {
		result = append(result, sema.ResolvedLocation{
			Location:    common.AddressLocation{Address: addr.Address, Name: identifier.Identifier},
			Identifiers: []ast.Identifier{identifier},
		})
	}
	return result, nil
}

func (h *Host) GetCode(location runtime.Location) ([]byte, error) {
	if err := h.call(KGetCode, fmt.Sprint(location), ""); err != nil {
		return nil, err
	}
	if a, ok := location.(common.AddressLocation); ok {
		return h.Codes[string(a.ID())], nil
	}
	return nil, nil
}

func (h *Host) GetOrLoadProgram(location runtime.Location, load func() (*runtime.Program, error)) (*runtime.Program, error) {
	if err := h.call(KGetProgram, fmt.Sprint(location), ""); err != nil {
		return nil, err
	}
	if h.Shared != nil {
		// only imported (address-located) programs are shared between concurrent executions
		if _, ok := location.(common.AddressLocation); ok {
			return h.Shared.GetOrLoad(location, load)
		}
	}
	if p, ok := h.Programs[location]; ok {
		return p, nil
	}
	p, err := load()
	h.Programs[location] = p
	return p, err
}

// SharedPrograms is a program cache shared by concurrently executing hosts (C36):
// imported contract programs, their elaborations and lazily initialised type members
// are then genuinely shared between goroutines. The cache itself is mutex-protected,
// so the monitor cannot be the race.
type SharedPrograms struct {
	mu       sync.Mutex
	programs map[common.Location]*sharedEntry
}

type sharedEntry struct {
	once sync.Once
	p    *runtime.Program
	err  error
}

func NewSharedPrograms() *SharedPrograms {
	return &SharedPrograms{programs: map[common.Location]*sharedEntry{}}
}

func (s *SharedPrograms) GetOrLoad(location common.Location, load func() (*runtime.Program, error)) (*runtime.Program, error) {
	s.mu.Lock()
	e, ok := s.programs[location]
	if !ok {
		e = &sharedEntry{}
		s.programs[location] = e
	}
	s.mu.Unlock()
	e.once.Do(func() { e.p, e.err = load() })
	return e.p, e.err
}

func (s *SharedPrograms) Len() int {
	s.mu.Lock()
	defer s.mu.Unlock()
	return len(s.programs)
}

func (h *Host) GetValue(owner, key []byte) ([]byte, error) {
	if h.RecordReads || len(h.Faults) > 0 {
		if err := h.call(KGetValue, hex.EncodeToString(owner), hex.EncodeToString(key)); err != nil {
			return nil, err
		}
	}
	return h.Ledger.Values[LKey(owner, key)], nil
}

func (h *Host) SetValue(owner, key, value []byte) error {
	if err := h.call(KSetValue, hex.EncodeToString(owner)+"/"+hex.EncodeToString(key), hex.EncodeToString(value)); err != nil {
		return err
	}
	h.Ledger.Values[LKey(owner, key)] = append([]byte(nil), value...)
	return nil
}

func (h *Host) ValueExists(owner, key []byte) (bool, error) {
	if h.RecordReads || len(h.Faults) > 0 {
		if err := h.call(KValueExists, hex.EncodeToString(owner), hex.EncodeToString(key)); err != nil {
			return false, err
		}
	}
	return len(h.Ledger.Values[LKey(owner, key)]) > 0, nil
}

func (h *Host) AllocateSlabIndex(owner []byte) (atree.SlabIndex, error) {
	var result atree.SlabIndex
	if err := h.call(KAllocSlab, hex.EncodeToString(owner), ""); err != nil {
		return result, err
	}
	idx := h.Ledger.Indices[string(owner)] + 1
	h.Ledger.Indices[string(owner)] = idx
	binary.BigEndian.PutUint64(result[:], idx)
	return result, nil
}

func (h *Host) CreateAccount(payer runtime.Address, _ interpreter.InvocationContext) (runtime.Address, error) {
	if err := h.call(KCreateAccount, payer.String(), ""); err != nil {
		return runtime.Address{}, err
	}
	h.NextAccount++
	var a runtime.Address
	binary.BigEndian.PutUint64(a[:], h.NextAccount)
	return a, nil
}

func (h *Host) AddAccountKey(address runtime.Address, publicKey *runtime.PublicKey, hashAlgo runtime.HashAlgorithm, weight int) (*runtime.AccountKey, error) {
	if err := h.call(KAddKey, address.String(), ""); err != nil {
		return nil, err
	}
	k := &stdlib.AccountKey{KeyIndex: uint32(len(h.Keys[address])), PublicKey: publicKey, HashAlgo: hashAlgo, Weight: weight}
	h.Keys[address] = append(h.Keys[address], k)
	return k, nil
}

func (h *Host) GetAccountKey(address runtime.Address, index uint32) (*runtime.AccountKey, error) {
	if err := h.call(KGetKey, address.String(), fmt.Sprint(index)); err != nil {
		return nil, err
	}
	ks := h.Keys[address]
	if int(index) >= len(ks) {
		return nil, nil
	}
	return ks[index], nil
}

func (h *Host) AccountKeysCount(address runtime.Address) (uint32, error) {
	if err := h.call(KKeysCount, address.String(), ""); err != nil {
		return 0, err
	}
	return uint32(len(h.Keys[address])), nil
}

func (h *Host) RevokeAccountKey(address runtime.Address, index uint32) (*runtime.AccountKey, error) {
	if err := h.call(KRevokeKey, address.String(), fmt.Sprint(index)); err != nil {
		return nil, err
	}
	ks := h.Keys[address]
	if int(index) >= len(ks) {
		return nil, nil
	}
	k := *ks[index]
	k.IsRevoked = true
	ks[index] = &k
	return &k, nil
}

func (h *Host) UpdateAccountContractCode(location common.AddressLocation, code []byte) error {
	if err := h.call(KUpdateContract, string(location.ID()), hex.EncodeToString(code)); err != nil {
		return err
	}
	h.Codes[string(location.ID())] = append([]byte(nil), code...)
	return nil
}

func (h *Host) GetAccountContractCode(location common.AddressLocation) ([]byte, error) {
	if err := h.call(KGetContract, string(location.ID()), ""); err != nil {
		return nil, err
	}
	return h.Codes[string(location.ID())], nil
}

func (h *Host) RemoveAccountContractCode(location common.AddressLocation) error {
	if err := h.call(KRemoveContract, string(location.ID()), ""); err != nil {
		return err
	}
	delete(h.Codes, string(location.ID()))
	return nil
}

func (h *Host) GetSigningAccounts() ([]runtime.Address, error) {
	if err := h.call(KSigners, "", ""); err != nil {
		return nil, err
	}
	return h.Signers, nil
}

func (h *Host) ProgramLog(s string) error {
	if err := h.call(KLog, s, ""); err != nil {
		return err
	}
	h.Logs = append(h.Logs, s)
	return nil
}

func (h *Host) EmitEvent(e cadence.Event) error {
	if err := h.call(KEmit, e.EventType.ID(), e.String()); err != nil {
		return err
	}
	h.Events = append(h.Events, e)
	return nil
}

func (h *Host) GenerateUUID() (uint64, error) {
	if err := h.call(KUUID, "", ""); err != nil {
		return 0, err
	}
	h.UUID++
	h.UUIDs = append(h.UUIDs, h.UUID)
	return h.UUID, nil
}

func (h *Host) DecodeArgument(b []byte, t cadence.Type) (cadence.Value, error) {
	if err := h.call(KDecodeArg, "", ""); err != nil {
		return nil, err
	}
	if h.DecodeArgs != nil {
		return h.DecodeArgs(b, t)
	}
	return jsoncdc.Decode(nil, b)
}

func (h *Host) GetCurrentBlockHeight() (uint64, error) {
	if err := h.call(KBlockHeight, "", ""); err != nil {
		return 0, err
	}
	return h.Height, nil
}

func (h *Host) GetBlockAtHeight(height uint64) (runtime.Block, bool, error) {
	if err := h.call(KBlockAt, fmt.Sprint(height), ""); err != nil {
		return runtime.Block{}, false, err
	}
	if height > h.Height {
		return runtime.Block{}, false, nil
	}
	var hash stdlib.BlockHash
	binary.BigEndian.PutUint64(hash[:], height)
	return runtime.Block{Height: height, View: height, Hash: hash, Timestamp: int64(height) * 1_000_000_000}, true, nil
}

func (h *Host) ReadRandom(b []byte) error {
	if err := h.call(KRandom, fmt.Sprint(len(b)), ""); err != nil {
		return err
	}
	h.RandomReqs = append(h.RandomReqs, len(b))
	if h.Random != nil {
		return h.Random(b)
	}
	for i := range b {
		b[i] = byte(37*i + 11)
	}
	return nil
}

func (h *Host) VerifySignature(signature []byte, tag string, signedData []byte, publicKey []byte, signatureAlgorithm runtime.SignatureAlgorithm, hashAlgorithm runtime.HashAlgorithm) (bool, error) {
	if err := h.call(KVerifySig, tag, ""); err != nil {
		return false, err
	}
	return len(signature) > 0 && signature[0] == 1, nil
}

func (h *Host) Hash(data []byte, tag string, hashAlgorithm runtime.HashAlgorithm) ([]byte, error) {
	if err := h.call(KHash, tag, ""); err != nil {
		return nil, err
	}
	out := make([]byte, 32)
	for i, b := range data {
		out[i%32] ^= b + byte(i)
	}
	return out, nil
}

func (h *Host) GetAccountBalance(address common.Address) (uint64, error) {
	if err := h.call(KBalance, address.String(), ""); err != nil {
		return 0, err
	}
	return 1000, nil
}

func (h *Host) GetAccountAvailableBalance(address common.Address) (uint64, error) {
	if err := h.call(KAvailBalance, address.String(), ""); err != nil {
		return 0, err
	}
	return 900, nil
}

func (h *Host) GetStorageUsed(address runtime.Address) (uint64, error) {
	if err := h.call(KStorageUsed, address.String(), ""); err != nil {
		return 0, err
	}
	return 123, nil
}

func (h *Host) GetStorageCapacity(address runtime.Address) (uint64, error) {
	if err := h.call(KStorageCap, address.String(), ""); err != nil {
		return 0, err
	}
	return 100000, nil
}

func (h *Host) ImplementationDebugLog(message string) error {
	return h.call(KDebugLog, message, "")
}

func (h *Host) ValidatePublicKey(key *runtime.PublicKey) error {
	if err := h.call(KValidateKey, "", ""); err != nil {
		return err
	}
	return h.KeyValidationError
}

func (h *Host) GetAccountContractNames(address runtime.Address) ([]string, error) {
	if err := h.call(KContractNames, address.String(), ""); err != nil {
		return nil, err
	}
	var names []string
	prefix := "A." + address.Hex() + "."
	for id := range h.Codes {
		if strings.HasPrefix(id, prefix) {
			names = append(names, strings.TrimPrefix(id, prefix))
		}
	}
	sort.Strings(names)
	return names, nil
}

func (h *Host) RecordTrace(string, time.Duration, []attribute.KeyValue) {}

func (h *Host) BLSVerifyPOP(publicKey *runtime.PublicKey, signature []byte) (bool, error) {
	if err := h.call(KBLSPop, "", ""); err != nil {
		return false, err
	}
	return true, nil
}

func (h *Host) BLSAggregateSignatures(signatures [][]byte) ([]byte, error) {
	if err := h.call(KBLSAggSig, "", ""); err != nil {
		return nil, err
	}
	var out []byte
	for _, s := range signatures {
		out = append(out, s...)
	}
	return out, nil
}

func (h *Host) BLSAggregatePublicKeys(publicKeys []*runtime.PublicKey) (*runtime.PublicKey, error) {
	if err := h.call(KBLSAggKey, "", ""); err != nil {
		return nil, err
	}
	if len(publicKeys) == 0 {
		return nil, errors.New("no keys")
	}
	return publicKeys[0], nil
}

func (h *Host) ResourceOwnerChanged(inter *interpreter.Interpreter, resource *interpreter.CompositeValue, oldOwner common.Address, newOwner common.Address) {
	// no fault injection here: the callback has no error result and runs inside atree mutation
	var uuid uint64
	if resource != nil && inter != nil {
		if u := resource.ResourceUUID(inter); u != nil {
			uuid = uint64(*u)
		}
	}
	tid := ""
	if resource != nil {
		tid = string(resource.TypeID())
	}
	h.OwnerChanges = append(h.OwnerChanges, OwnerChange{UUID: uuid, TypeID: tid, Old: oldOwner, New: newOwner})
	if !h.NoRecord {
		h.Recs = append(h.Recs, Rec{Seq: h.seq, Kind: KOwnerChanged, A: fmt.Sprintf("%d %s", uuid, tid), B: oldOwner.String() + "->" + newOwner.String()})
		h.seq++
	}
}

func (h *Host) GenerateAccountID(address common.Address) (uint64, error) {
	if err := h.call(KAccountID, address.String(), ""); err != nil {
		return 0, err
	}
	h.AccountIDs[address]++
	return h.AccountIDs[address], nil
}

func (h *Host) RecoverProgram(program *ast.Program, location common.Location) ([]byte, error) {
	if err := h.call(KRecover, fmt.Sprint(location), ""); err != nil {
		return nil, err
	}
	return nil, nil
}

func (h *Host) ValidateAccountCapabilitiesGet(_ interpreter.AccountCapabilityGetValidationContext, _ interpreter.AddressValue, _ interpreter.PathValue, _ *sema.ReferenceType, _ *sema.ReferenceType) (bool, error) {
	if err := h.call(KCapGet, "", ""); err != nil {
		return false, err
	}
	return true, nil
}

func (h *Host) ValidateAccountCapabilitiesPublish(_ interpreter.AccountCapabilityPublishValidationContext, _ interpreter.AddressValue, _ interpreter.PathValue, _ *interpreter.ReferenceStaticType) (bool, error) {
	if err := h.call(KCapPublish, "", ""); err != nil {
		return false, err
	}
	return true, nil
}

func (h *Host) MinimumRequiredVersion() (string, error) {
	if err := h.call(KMinVersion, "", ""); err != nil {
		return "", err
	}
	return "", nil
}
