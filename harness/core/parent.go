package core

import (
	"encoding/json"
	"fmt"
	"os"
	"os/exec"
	"path/filepath"
	"regexp"
	"runtime"
	"sort"
	"strconv"
	"strings"
	"sync"
	"syscall"
	"time"
)

// Exit codes: 0 held, 1 violated, 2 inconclusive.

type workerProc struct {
	shard    int
	cmd      *exec.Cmd
	out      string
	inflight string
	stderr   string
	err      error
	timedOut bool
	done     chan struct{}
}

func watchdog(tier string) time.Duration {
	if s := os.Getenv("VERIF_WATCHDOG_S"); s != "" {
		if n, err := strconv.Atoi(s); err == nil {
			return time.Duration(n) * time.Second
		}
	}
	if tier == "thorough" {
		return 4 * time.Hour
	}
	return 20 * time.Minute
}

// RunParent orchestrates one check run and returns the process exit code.
func RunParent(p *Prop, tier string, seed int64, self string) int {
	start := time.Now()
	n := p.NumCases(tier)
	nw := runtime.NumCPU()
	if s := os.Getenv("VERIF_WORKERS"); s != "" {
		if v, err := strconv.Atoi(s); err == nil && v > 0 {
			nw = v
		}
	}
	if nw > 16 {
		nw = 16
	}
	if p.MaxWorkers > 0 && nw > p.MaxWorkers {
		nw = p.MaxWorkers
	}
	if nw > n {
		nw = n
	}
	if nw < 1 {
		nw = 1
	}
	tmp, err := os.MkdirTemp("", "vcheck-"+p.ID+"-")
	if err != nil {
		fmt.Printf("INCONCLUSIVE property=%s reason=tmpdir:%v\n", p.ID, err)
		return 2
	}
	defer os.RemoveAll(tmp)

	agg := &Agg{Prop: p, Tier: tier, Seed: seed, Counters: map[string]int64{}, Distinct: map[uint64]struct{}{}, Notes: map[string]string{}}

	deadline := time.Now().Add(watchdog(tier))
	var procs []*workerProc

	launch := func(shard, nshards, only int) *workerProc {
		tag := fmt.Sprintf("%d", shard)
		if only >= 0 {
			tag = fmt.Sprintf("case%d", only)
		}
		wp := &workerProc{
			shard:    shard,
			out:      filepath.Join(tmp, "out-"+tag+".json"),
			inflight: filepath.Join(tmp, "inflight-"+tag),
			stderr:   filepath.Join(tmp, "stderr-"+tag+".txt"),
		}
		args := []string{"-worker", "-prop", p.ID, "-tier", tier, "-seed", strconv.FormatInt(seed, 10),
			"-shard", strconv.Itoa(shard), "-nshards", strconv.Itoa(nshards), "-only", strconv.Itoa(only),
			"-out", wp.out, "-inflight", wp.inflight}
		cmd := exec.Command(self, args...)
		ef, _ := os.Create(wp.stderr)
		cmd.Stderr = ef
		cmd.Stdout = ef
		cmd.Env = append(os.Environ(), "GOMEMLIMIT=3GiB", "GOTRACEBACK=all")
		if p.Race {
			cmd.Env = append(cmd.Env, "GORACE=halt_on_error=0 log_path="+filepath.Join(tmp, "race-"+tag))
		}
		wp.cmd = cmd
		wp.done = make(chan struct{})
		wp.err = cmd.Start()
		if wp.err == nil {
			go func() {
				wp.err = cmd.Wait()
				ef.Close()
				close(wp.done)
			}()
		} else {
			ef.Close()
			close(wp.done)
		}
		return wp
	}

	wait := func(wps []*workerProc) {
		for _, wp := range wps {
			d := time.Until(deadline)
			if d < 0 {
				d = 0
			}
			select {
			case <-wp.done:
			case <-time.After(d):
				wp.timedOut = true
				if wp.cmd.Process != nil {
					_ = wp.cmd.Process.Signal(syscall.SIGQUIT)
					select {
					case <-wp.done:
					case <-time.After(3 * time.Second):
						_ = wp.cmd.Process.Kill()
						<-wp.done
					}
				}
			}
		}
	}

	if p.FreshProcess {
		// every case in its own process, nw at a time
		sem := make(chan struct{}, nw)
		var mu sync.Mutex
		var wg sync.WaitGroup
		for i := 0; i < n; i++ {
			wg.Add(1)
			sem <- struct{}{}
			go func(i int) {
				defer wg.Done()
				defer func() { <-sem }()
				wp := launch(i, 1, i)
				wait([]*workerProc{wp})
				mu.Lock()
				procs = append(procs, wp)
				mu.Unlock()
			}(i)
		}
		wg.Wait()
	} else {
		for w := 0; w < nw; w++ {
			procs = append(procs, launch(w, nw, -1))
		}
		wait(procs)
	}

	casesRun := 0
	for _, wp := range procs {
		var res workerResult
		b, rerr := os.ReadFile(wp.out)
		if rerr == nil {
			rerr = json.Unmarshal(b, &res)
		}
		if wp.timedOut {
			agg.Inconclusive = append(agg.Inconclusive, fmt.Sprintf("watchdog: worker %d did not finish", wp.shard))
			dump, _ := os.ReadFile(wp.stderr)
			_ = os.MkdirAll(filepath.Join(VerifDir, "replays", p.ID), 0o755)
			_ = os.WriteFile(filepath.Join(VerifDir, "replays", p.ID, fmt.Sprintf("watchdog-%d.txt", wp.shard)), dump, 0o644)
			continue
		}
		if rerr != nil || !res.Done {
			// the worker died: a Go fatal error (stack overflow, concurrent map access, OOM) or os.Exit
			inflight, _ := os.ReadFile(wp.inflight)
			caseNo, _ := strconv.Atoi(strings.TrimSpace(string(inflight)))
			dump, _ := os.ReadFile(wp.stderr)
			tail := string(dump)
			key := "worker-died:" + fatalKind(tail)
			agg.Violations = append(agg.Violations, Violation{
				Key:  key,
				Msg:  fmt.Sprintf("worker process died while running case %d (%v)", caseNo, wp.err),
				Case: caseNo,
				Witness: map[string]any{
					"stderr_head": clip(tail, 8000),
				},
			})
			continue
		}
		casesRun += res.CasesRun
		for k, v := range res.Counters {
			if strings.HasPrefix(k, "max:") {
				if v > agg.Counters[k] {
					agg.Counters[k] = v
				}
			} else {
				agg.Counters[k] += v
			}
		}
		agg.Evals += res.Evals
		for _, h := range res.Distinct {
			agg.Distinct[h] = struct{}{}
		}
		if len(agg.Samples) < 5 {
			for _, s := range res.Samples {
				if len(agg.Samples) < 5 {
					agg.Samples = append(agg.Samples, s)
				}
			}
		}
		agg.Violations = append(agg.Violations, res.Violations...)
		for k, v := range res.Notes {
			agg.Notes[k] = v
		}
	}
	if p.Race {
		parseRaceLogs(tmp, agg)
	}
	agg.Counters["cases_run"] = int64(casesRun)

	if p.Finalize != nil {
		p.Finalize(agg)
	}

	// floors
	for name, floor := range p.Floors {
		if agg.Counters[name] < floor {
			agg.Inconclusive = append(agg.Inconclusive, fmt.Sprintf("floor: monitor %q observed %d < %d", name, agg.Counters[name], floor))
		}
	}
	if agg.Evals == 0 {
		agg.Inconclusive = append(agg.Inconclusive, "no evaluations")
	}
	if len(agg.Distinct) < 2 {
		agg.Inconclusive = append(agg.Inconclusive, "fewer than 2 distinct non-trivial cases")
	}

	return finish(agg, start)
}

func fatalKind(stderr string) string {
	for _, l := range strings.Split(stderr, "\n") {
		if strings.HasPrefix(l, "fatal error:") || strings.HasPrefix(l, "panic:") || strings.HasPrefix(l, "runtime:") {
			l = stripDigits(l)
			return clip(l, 80)
		}
	}
	return "unknown"
}

func stripDigits(s string) string {
	var b strings.Builder
	for _, r := range s {
		if r >= '0' && r <= '9' {
			continue
		}
		b.WriteRune(r)
	}
	return b.String()
}

func parseRaceLogs(dir string, agg *Agg) {
	matches, _ := filepath.Glob(filepath.Join(dir, "race-*"))
	seen := map[string]bool{}
	for _, m := range matches {
		b, err := os.ReadFile(m)
		if err != nil {
			continue
		}
		blocks := strings.Split(string(b), "==================")
		for _, blk := range blocks {
			if !strings.Contains(blk, "WARNING: DATA RACE") {
				continue
			}
			agg.Counters["race_reports_raw"]++
			key := raceKey(blk)
			if seen[key] {
				continue
			}
			seen[key] = true
			agg.Violations = append(agg.Violations, Violation{
				Key:     "race:" + key,
				Msg:     "data race reported by the Go race detector",
				Witness: map[string]any{"report": clip(blk, 12000)},
				Case:    -1,
			})
		}
	}
}

// raceKey de-duplicates a race report by the first cadence frame of each of the two stacks.
func raceKey(blk string) string {
	var frames []string
	sections := strings.Split(blk, "\n\n")
	for _, s := range sections {
		if !(strings.Contains(s, "by goroutine") || strings.Contains(s, "by main goroutine")) {
			continue
		}
		if strings.Contains(s, "created at") && !strings.Contains(s, "rite at") && !strings.Contains(s, "ead at") {
			continue
		}
		for _, l := range strings.Split(s, "\n") {
			l = strings.TrimSpace(l)
			if strings.HasPrefix(l, "github.com/onflow/cadence") {
				if i := strings.LastIndex(l, "("); i > 0 {
					l = l[:i]
				}
				frames = append(frames, l)
				break
			}
		}
		if len(frames) == 2 {
			break
		}
	}
	sort.Strings(frames)
	return strings.Join(frames, "|")
}

type evidence struct {
	PropertyID  string         `json:"property_id"`
	Tier        string         `json:"tier"`
	Seed        int64          `json:"seed"`
	Level       string         `json:"level"`
	Coverage    map[string]any `json:"coverage"`
	Assumptions []string       `json:"assumptions"`
	WallS       float64        `json:"wall_s"`
	Violations  int            `json:"violations"`
	Verdict     string         `json:"verdict"`
	Known       []string       `json:"known_findings_observed,omitempty"`
	Inconcl     []string       `json:"inconclusive_reasons,omitempty"`
}

func finish(agg *Agg, start time.Time) int {
	p := agg.Prop
	known := LoadKnown()
	var findings []KnownFinding
	for _, k := range known.Findings {
		if k.Property == p.ID {
			findings = append(findings, k)
		}
	}
	// match returns the index of the listed finding that covers a violation key, or -1
	match := func(key string) int {
		for i, f := range findings {
			if f.Key != "" && f.Key == key {
				return i
			}
		}
		for i, f := range findings {
			if f.KeyPattern == "" {
				continue
			}
			if re, err := regexp.Compile(f.KeyPattern); err == nil && re.MatchString(key) {
				return i
			}
		}
		return -1
	}

	// de-duplicate violations by key
	byKey := map[string][]Violation{}
	var keys []string
	for _, v := range agg.Violations {
		if _, ok := byKey[v.Key]; !ok {
			keys = append(keys, v.Key)
		}
		byKey[v.Key] = append(byKey[v.Key], v)
	}
	sort.Strings(keys)

	var newKeys []string
	observed := map[int]int{}
	for _, k := range keys {
		if i := match(k); i >= 0 {
			observed[i]++
		} else {
			newKeys = append(newKeys, k)
		}
	}

	var knownObserved []string
	for i, f := range findings {
		id := f.Key
		if id == "" {
			id = "pattern:" + f.KeyPattern
		}
		if observed[i] > 0 {
			fmt.Printf("KNOWN-FINDING: property=%s key=%q %s\n", p.ID, clip(id, 300), clip(f.What, 400))
			knownObserved = append(knownObserved, id)
		} else {
			// listed findings this run did not re-observe are reported as notes (not alarms)
			fmt.Printf("NOTE: property=%s listed known finding %q was not re-observed by this run\n", p.ID, clip(id, 300))
		}
	}

	replayDir := filepath.Join(VerifDir, "replays", p.ID)
	printed := 0
	for _, k := range newKeys {
		vs := byKey[k]
		v := vs[0]
		rep := map[string]any{
			"property": p.ID, "tier": agg.Tier, "seed": agg.Seed, "case": v.Case,
			"key": v.Key, "msg": v.Msg, "witness": v.Witness, "occurrences": len(vs),
		}
		_ = os.MkdirAll(replayDir, 0o755)
		path := filepath.Join(replayDir, HashOf(map[string]any{"k": v.Key, "c": v.Case, "s": agg.Seed, "t": agg.Tier})+".json")
		b, _ := json.MarshalIndent(rep, "", " ")
		_ = os.WriteFile(path, b, 0o644)
		if printed < 20 {
			fmt.Printf("VIOLATION property=%s replay=%s\n", p.ID, path)
			fmt.Printf("  key=%s\n  %s\n", v.Key, clip(v.Msg, 600))
			printed++
		}
	}

	verdict := "held"
	code := 0
	if len(newKeys) > 0 {
		verdict = "violated"
		code = 1
	} else if len(agg.Inconclusive) > 0 {
		verdict = "inconclusive"
		code = 2
		for _, r := range agg.Inconclusive {
			fmt.Printf("INCONCLUSIVE property=%s reason=%s\n", p.ID, r)
		}
	}

	monitors := map[string]any{}
	var cnames []string
	for k := range agg.Counters {
		cnames = append(cnames, k)
	}
	sort.Strings(cnames)
	for _, k := range cnames {
		monitors[k] = agg.Counters[k]
	}
	cov := map[string]any{
		"evaluations":         agg.Evals,
		"distinct_nontrivial": len(agg.Distinct),
		"rule":                p.Rule,
		"samples":             agg.Samples,
		"monitors":            monitors,
	}
	if len(agg.Notes) > 0 {
		cov["notes"] = agg.Notes
	}
	if p.Exhaustive != nil && p.Exhaustive(agg.Tier) {
		cov["exhaustive"] = true
	}
	if len(agg.Samples) == 0 {
		cov["samples"] = []any{"(no sample recorded)"}
	}
	ev := evidence{
		PropertyID: p.ID, Tier: agg.Tier, Seed: agg.Seed, Level: p.Level, Coverage: cov,
		Assumptions: p.Assumptions, WallS: time.Since(start).Seconds(),
		Violations: len(newKeys), Verdict: verdict, Known: knownObserved, Inconcl: agg.Inconclusive,
	}
	if ev.Assumptions == nil {
		ev.Assumptions = []string{}
	}
	b, err := json.MarshalIndent(ev, "", " ")
	if err != nil {
		cov["samples"] = []any{fmt.Sprintf("%+v", agg.Samples)}
		b, _ = json.MarshalIndent(ev, "", " ")
	}
	_ = os.MkdirAll(filepath.Join(VerifDir, "evidence"), 0o755)
	_ = os.WriteFile(filepath.Join(VerifDir, "evidence", p.ID+".json"), b, 0o644)

	fmt.Printf("%s %s tier=%s seed=%d evaluations=%d distinct=%d known=%d new_violations=%d wall=%.1fs\n",
		strings.ToUpper(verdict), p.ID, agg.Tier, agg.Seed, agg.Evals, len(agg.Distinct), len(knownObserved), len(newKeys), time.Since(start).Seconds())
	return code
}

// Replay re-runs the case recorded in a replay file in this process.
func Replay(p *Prop, path string) int {
	b, err := os.ReadFile(path)
	if err != nil {
		fmt.Println("cannot read replay:", err)
		return 2
	}
	var rep struct {
		Tier string `json:"tier"`
		Seed int64  `json:"seed"`
		Case int    `json:"case"`
		Key  string `json:"key"`
	}
	if err := json.Unmarshal(b, &rep); err != nil {
		fmt.Println("bad replay:", err)
		return 2
	}
	if rep.Case < 0 {
		fmt.Println("replay: violation was produced by a cross-case oracle; re-run the whole check with the same seed")
		return 2
	}
	ws := newWorkerState()
	c := &Ctx{Prop: p.ID, Tier: rep.Tier, Seed: rep.Seed, Case: rep.Case, Rng: CaseRng(rep.Seed, p.ID, rep.Tier, rep.Case), w: ws}
	p.Run(c)
	hit := false
	for _, v := range ws.Violations {
		wb, _ := json.MarshalIndent(v.Witness, "", " ")
		fmt.Printf("replayed violation key=%s\n %s\n %s\n", v.Key, v.Msg, clip(string(wb), 4000))
		if v.Key == rep.Key {
			hit = true
		}
	}
	if hit {
		fmt.Printf("VIOLATION property=%s replay=%s\n", p.ID, path)
		return 1
	}
	fmt.Println("replay: recorded violation did not reproduce")
	return 0
}
