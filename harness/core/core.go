// Package core is the shared machinery of the runtime-monitoring harness:
// deterministic case lists, sharded worker processes, three-valued verdicts,
// evidence files, replay files and the known-findings protocol.
package core

import (
	"crypto/sha256"
	"encoding/hex"
	"encoding/json"
	"fmt"
	"hash/fnv"
	"math/rand/v2"
	"os"
	"path/filepath"
	"runtime/debug"
	"sort"
	"strings"
	"sync"
)

// VerifDir is the root of the verification tree (overridable for tests).
var VerifDir = func() string {
	if d := os.Getenv("VERIF_DIR"); d != "" {
		return d
	}
	return "/verif"
}()

// Violation is one observed refutation of a property.
type Violation struct {
	// Key is the normalised witness class: narrow enough that a different break
	// of the same property has a different key (used for known-finding matching
	// and de-duplication).
	Key     string `json:"key"`
	Msg     string `json:"msg"`
	Witness any    `json:"witness,omitempty"`
	Case    int    `json:"case"`
}

// Prop is one property check.
type Prop struct {
	ID          string
	Level       string // exploration | fault_enumeration | ...
	Rule        string
	Assumptions []string
	// NumCases is the fixed number of cases of a tier. Never a time budget.
	NumCases func(tier string) int
	// Run executes case c.Case. It must be deterministic given (seed, tier, case).
	Run func(c *Ctx)
	// Floors: counters that must reach at least this value (summed over all
	// workers) or the run is inconclusive. Values may differ per tier:
	// the map holds quick-tier floors; thorough floors are the same.
	Floors map[string]int64
	// Exhaustive reports whether a tier enumerates a finite space completely.
	Exhaustive func(tier string) bool
	// Race: needs the -race build.
	Race bool
	// Finalize, if set, runs in the parent after merging (cross-worker oracles).
	Finalize func(a *Agg)
	// MaxWorkers caps the number of worker processes (0 = NumCPU).
	MaxWorkers int
	// OneProcessPerCase: each case is run in a fresh worker process.
	FreshProcess bool
}

var registry = map[string]*Prop{}

func Register(p *Prop) {
	if _, dup := registry[p.ID]; dup {
		panic("duplicate property " + p.ID)
	}
	if p.Level == "" {
		p.Level = "exploration"
	}
	registry[p.ID] = p
}

func Lookup(id string) *Prop { return registry[id] }

func IDs() []string {
	var ids []string
	for id := range registry {
		ids = append(ids, id)
	}
	sort.Strings(ids)
	return ids
}

// Ctx is handed to Prop.Run for one case. It also accumulates the worker's
// observations across cases.
type Ctx struct {
	Prop string
	Tier string
	Seed int64
	Case int
	Rng  *rand.Rand

	w *workerState
}

type workerState struct {
	mu         sync.Mutex
	Counters   map[string]int64 `json:"counters"`
	Evals      int64            `json:"evals"`
	Distinct   map[uint64]struct{}
	Samples    []any       `json:"samples"`
	Violations []Violation `json:"violations"`
	Notes      map[string]string
	maxSamples int
}

func newWorkerState() *workerState {
	return &workerState{
		Counters:   map[string]int64{},
		Distinct:   map[uint64]struct{}{},
		Notes:      map[string]string{},
		maxSamples: 4,
	}
}

func (c *Ctx) Quick() bool    { return c.Tier == "quick" }
func (c *Ctx) Thorough() bool { return c.Tier == "thorough" }

// Pick returns q in the quick tier and t in the thorough tier.
func (c *Ctx) Pick(q, t int) int {
	if c.Thorough() {
		return t
	}
	return q
}

func (c *Ctx) Count(name string, n int64) {
	c.w.mu.Lock()
	c.w.Counters[name] += n
	c.w.mu.Unlock()
}

func (c *Ctx) Inc(name string) { c.Count(name, 1) }

// Max records the maximum value seen for a gauge-like counter.
func (c *Ctx) Max(name string, v int64) {
	c.w.mu.Lock()
	k := "max:" + name
	if v > c.w.Counters[k] {
		c.w.Counters[k] = v
	}
	c.w.mu.Unlock()
}

func (c *Ctx) Eval(n int64) {
	c.w.mu.Lock()
	c.w.Evals += n
	c.w.mu.Unlock()
}

// Distinct records one distinct non-trivial case (by content).
func (c *Ctx) Distinct(content string) {
	h := fnv.New64a()
	_, _ = h.Write([]byte(content))
	c.w.mu.Lock()
	c.w.Distinct[h.Sum64()] = struct{}{}
	c.w.mu.Unlock()
}

func (c *Ctx) DistinctHash(h uint64) {
	c.w.mu.Lock()
	c.w.Distinct[h] = struct{}{}
	c.w.mu.Unlock()
}

func (c *Ctx) Sample(v any) {
	c.w.mu.Lock()
	if len(c.w.Samples) < c.w.maxSamples {
		c.w.Samples = append(c.w.Samples, v)
	}
	c.w.mu.Unlock()
}

func (c *Ctx) WantSample() bool {
	c.w.mu.Lock()
	defer c.w.mu.Unlock()
	return len(c.w.Samples) < c.w.maxSamples
}

func (c *Ctx) Note(k, v string) {
	c.w.mu.Lock()
	c.w.Notes[k] = v
	c.w.mu.Unlock()
}

// Violate records a violation. Key must be a narrow witness class.
func (c *Ctx) Violate(key, msg string, witness any) {
	c.w.mu.Lock()
	defer c.w.mu.Unlock()
	// keep at most 3 witnesses per key per worker, 400 overall
	n := 0
	for _, v := range c.w.Violations {
		if v.Key == key {
			n++
		}
	}
	c.w.Counters["violations_raw"]++
	if n >= 3 || len(c.w.Violations) >= 400 {
		return
	}
	c.w.Violations = append(c.w.Violations, Violation{Key: key, Msg: msg, Witness: witness, Case: c.Case})
}

// CaseRng returns the deterministic PRNG of a case.
func CaseRng(seed int64, prop string, tier string, cs int) *rand.Rand {
	h := fnv.New64a()
	_, _ = h.Write([]byte(prop))
	_, _ = h.Write([]byte{0})
	_, _ = h.Write([]byte(tier))
	s1 := h.Sum64() ^ uint64(seed)*0x9E3779B97F4A7C15
	s2 := uint64(cs)*0xD1342543DE82EF95 + 0x632BE59BD9B4E019
	return rand.New(rand.NewPCG(s1, s2))
}

// workerResult is what a worker process writes for the parent.
type workerResult struct {
	Counters   map[string]int64  `json:"counters"`
	Evals      int64             `json:"evals"`
	Distinct   []uint64          `json:"distinct"`
	Samples    []any             `json:"samples"`
	Violations []Violation       `json:"violations"`
	Notes      map[string]string `json:"notes"`
	CasesRun   int               `json:"cases_run"`
	Done       bool              `json:"done"`
}

// RunWorker runs the cases of one shard in this process and writes the result file.
func RunWorker(p *Prop, tier string, seed int64, shard, nshards int, only int, outPath, inflightPath string) {
	ws := newWorkerState()
	n := p.NumCases(tier)
	res := workerResult{}
	var inflight *os.File
	if inflightPath != "" {
		inflight, _ = os.Create(inflightPath)
	}
	runCase := func(i int) {
		if inflight != nil {
			_, _ = inflight.WriteAt([]byte(fmt.Sprintf("%-12d", i)), 0)
		}
		c := &Ctx{Prop: p.ID, Tier: tier, Seed: seed, Case: i, Rng: CaseRng(seed, p.ID, tier, i), w: ws}
		func() {
			defer func() {
				if r := recover(); r != nil {
					st := string(debug.Stack())
					c.Violate("escaped-panic:"+topFrame(st), fmt.Sprintf("panic escaped to the harness: %v", r),
						map[string]any{"panic": fmt.Sprint(r), "stack": clip(st, 6000)})
				}
			}()
			p.Run(c)
		}()
		res.CasesRun++
	}
	if only >= 0 {
		runCase(only)
	} else {
		for i := shard; i < n; i += nshards {
			runCase(i)
		}
	}
	res.Counters = ws.Counters
	res.Evals = ws.Evals
	res.Samples = ws.Samples
	res.Violations = ws.Violations
	res.Notes = ws.Notes
	for h := range ws.Distinct {
		res.Distinct = append(res.Distinct, h)
	}
	res.Done = true
	b, err := json.Marshal(res)
	if err != nil {
		// a witness that does not marshal: degrade to strings
		for i := range res.Violations {
			res.Violations[i].Witness = fmt.Sprintf("%+v", res.Violations[i].Witness)
		}
		res.Samples = []any{fmt.Sprintf("%+v", res.Samples)}
		b, _ = json.Marshal(res)
	}
	_ = os.WriteFile(outPath, b, 0o644)
}

func topFrame(stack string) string {
	// first frame that is in the code under test or the harness props, skipping runtime/panic frames
	lines := strings.Split(stack, "\n")
	for _, l := range lines {
		l = strings.TrimSpace(l)
		if strings.HasPrefix(l, "github.com/onflow/cadence") || strings.HasPrefix(l, "verif/harness/props") {
			if i := strings.LastIndex(l, "("); i > 0 {
				l = l[:i]
			}
			return l
		}
	}
	return "unknown"
}

func clip(s string, n int) string {
	if len(s) > n {
		return s[:n] + "…"
	}
	return s
}

func Clip(s string, n int) string { return clip(s, n) }

// Agg is the merged observation of all workers.
type Agg struct {
	Prop       *Prop
	Tier       string
	Seed       int64
	Counters   map[string]int64
	Evals      int64
	Distinct   map[uint64]struct{}
	Samples    []any
	Violations []Violation
	Notes      map[string]string
	Inconclusive []string
}

func (a *Agg) Violate(key, msg string, witness any) {
	a.Violations = append(a.Violations, Violation{Key: key, Msg: msg, Witness: witness, Case: -1})
}

// KnownFindings is the committed file of recorded genuine defects.
type KnownFindings struct {
	Findings []KnownFinding `json:"findings"`
	Fixed    []FixedFinding `json:"fixed"`
}

type KnownFinding struct {
	Property string `json:"property"`
	Key      string `json:"key"`
	// KeyPattern (optional, Go regexp, anchored by the author) identifies the finding by the
	// failing construct inside a minimised witness instead of one exact key.
	KeyPattern string `json:"key_pattern,omitempty"`
	What       string `json:"what"`
	Witness  any    `json:"witness,omitempty"`
}

type FixedFinding struct {
	Property string `json:"property"`
	Commit   string `json:"commit"`
	What     string `json:"what"`
	Line     string `json:"line,omitempty"`
}

func LoadKnown() KnownFindings {
	var k KnownFindings
	b, err := os.ReadFile(filepath.Join(VerifDir, "known_findings.json"))
	if err != nil {
		return k
	}
	_ = json.Unmarshal(b, &k)
	return k
}

func HashOf(v any) string {
	b, _ := json.Marshal(v)
	s := sha256.Sum256(b)
	return hex.EncodeToString(s[:8])
}
