package core

import (
	"flag"
	"fmt"
	"os"
	"strconv"

)

// Main is the entry point of every vcheck-<group> binary: parent (orchestrator), worker or replay.
func Main() {
	var (
		worker   = flag.Bool("worker", false, "run as worker")
		prop     = flag.String("prop", "", "property id")
		tier     = flag.String("tier", "quick", "quick|thorough")
		seedF    = flag.Int64("seed", -1, "seed (default VERIF_SEED or 1)")
		shard    = flag.Int("shard", 0, "")
		nshards  = flag.Int("nshards", 1, "")
		only     = flag.Int("only", -1, "")
		out      = flag.String("out", "", "")
		inflight = flag.String("inflight", "", "")
		replay   = flag.String("replay", "", "replay file")
		list     = flag.Bool("list", false, "list properties")
	)
	flag.Parse()
	if *list {
		for _, id := range IDs() {
			fmt.Println(id)
		}
		return
	}
	seed := *seedF
	if seed < 0 {
		seed = 1
		if s := os.Getenv("VERIF_SEED"); s != "" {
			if v, err := strconv.ParseInt(s, 10, 64); err == nil {
				seed = v
			}
		}
	}
	if t := os.Getenv("VERIF_TIER"); t != "" && !*worker && flagNotSet("tier") {
		*tier = t
	}
	p := Lookup(*prop)
	if p == nil {
		fmt.Printf("INCONCLUSIVE property=%s reason=unknown-property\n", *prop)
		os.Exit(2)
	}
	if *tier != "quick" && *tier != "thorough" {
		fmt.Printf("INCONCLUSIVE property=%s reason=bad-tier\n", *prop)
		os.Exit(2)
	}
	if *worker {
		RunWorker(p, *tier, seed, *shard, *nshards, *only, *out, *inflight)
		return
	}
	if *replay != "" {
		os.Exit(Replay(p, *replay))
	}
	self, err := os.Executable()
	if err != nil {
		self = os.Args[0]
	}
	os.Exit(RunParent(p, *tier, seed, self))
}

func flagNotSet(name string) bool {
	set := false
	flag.Visit(func(f *flag.Flag) {
		if f.Name == name {
			set = true
		}
	})
	return !set
}
