// Package audit is the ledger auditor of the harness (DESIGN.md §3.7). It works on the bytes of a
// host.Ledger only, through atree's public API and Cadence's exported decoders:
//
//	Health(l)      slab-graph / account-root / decodability problems (empty = healthy)
//	Census(l)      every resource-kinded composite stored anywhere, with uuid, type, owner, location
//	DumpValues(l)  canonical engine-independent rendering of everything stored
//	Inspect(l)     all of the above in one pass, with statistics
//
// Nothing here writes to the ledger: the adapter refuses SetValue / AllocateSlabIndex.
package audit

import (
	"bytes"
	"encoding/binary"
	"encoding/hex"
	"errors"
	"fmt"
	"sort"
	"strings"

	"github.com/fxamacker/cbor/v2"
	"github.com/onflow/atree"

	"github.com/onflow/cadence/common"
	"github.com/onflow/cadence/interpreter"
	"github.com/onflow/cadence/runtime"

	"verif/harness/host"
)

// ---------------------------------------------------------------- ledger adapter

// ReadOnlyLedger adapts a host.Ledger to atree.Ledger. Writes are refused (and counted).
type ReadOnlyLedger struct {
	L      *host.Ledger
	Writes int
}

var errReadOnly = errors.New("audit: ledger is read-only")

func (r *ReadOnlyLedger) GetValue(owner, key []byte) ([]byte, error) {
	return r.L.Values[host.LKey(owner, key)], nil
}

func (r *ReadOnlyLedger) SetValue(owner, key, value []byte) error {
	r.Writes++
	return errReadOnly
}

func (r *ReadOnlyLedger) ValueExists(owner, key []byte) (bool, error) {
	return len(r.L.Values[host.LKey(owner, key)]) > 0, nil
}

func (r *ReadOnlyLedger) AllocateSlabIndex(owner []byte) (atree.SlabIndex, error) {
	r.Writes++
	return atree.SlabIndex{}, errReadOnly
}

var _ atree.Ledger = &ReadOnlyLedger{}

// ---------------------------------------------------------------- registers

// Register is one non-interpreted ledger register.
type Register struct {
	Owner common.Address
	Key   string // raw key bytes
	Value []byte
}

// IsSlabKey: '$' followed by the 8-byte slab index.
func IsSlabKey(key string) bool { return len(key) == 9 && key[0] == '$' }

// Registers lists all registers (including empty tombstones) in canonical order.
// Registers whose owner is not an 8-byte address are returned in `odd`.
func Registers(l *host.Ledger) (regs []Register, odd []string) {
	keys := make([]string, 0, len(l.Values))
	for k := range l.Values {
		keys = append(keys, k)
	}
	sort.Strings(keys)
	for _, k := range keys {
		if len(k) < 9 || k[8] != '|' {
			odd = append(odd, hex.EncodeToString([]byte(k)))
			continue
		}
		var a common.Address
		copy(a[:], k[:8])
		regs = append(regs, Register{Owner: a, Key: k[9:], Value: l.Values[k]})
	}
	return
}

// ---------------------------------------------------------------- report

// Problem is one health defect. Class is stable and narrow (usable in violation keys).
type Problem struct {
	Class  string
	Detail string
}

func (p Problem) String() string { return p.Class + ": " + p.Detail }

// ProblemClass extracts the class from a string produced by Health.
func ProblemClass(s string) string {
	if i := strings.Index(s, ": "); i >= 0 {
		return s[:i]
	}
	return s
}

// Resource is one resource-kinded composite found in storage.
type Resource struct {
	UUID   uint64
	TypeID string
	Owner  common.Address
	Path   string // location description: 0x<addr>/<domain>/<key>[.field][[i]][{key}]…
}

// Report is the result of one full inspection.
type Report struct {
	Problems  []Problem
	Resources []Resource
	Values    []string // DumpValues lines

	Registers    int // non-empty registers
	Tombstones   int // registers with empty contents
	Slabs        int
	Accounts     int // accounts with a `stored` register
	RootSlabs    int
	StoredValues int // top-level values in all domain maps
	Unknown      int // non-empty registers that are neither `stored` nor slab registers
	MaxDepth     int
	Attachments  int
}

func (r *Report) add(class, format string, a ...any) {
	r.Problems = append(r.Problems, Problem{Class: class, Detail: clip(fmt.Sprintf(format, a...), 600)})
}

func clip(s string, n int) string {
	if len(s) > n {
		return s[:n] + "…"
	}
	return s
}

// ---------------------------------------------------------------- public API

// Health returns the list of health problems of the ledger ("class: detail"); empty = healthy.
func Health(l *host.Ledger) []string {
	r := Inspect(l)
	out := make([]string, len(r.Problems))
	for i, p := range r.Problems {
		out[i] = p.String()
	}
	return out
}

// Census lists every resource-kinded composite stored anywhere in the ledger, sorted by (UUID, Path).
// The error is non-nil when part of the storage could not be walked (the list is then partial).
func Census(l *host.Ledger) ([]Resource, error) {
	r := Inspect(l)
	return r.Resources, walkError(r)
}

// DumpValues renders everything stored as sorted "0x<account>/<domain>/<key> = <value> : <static type id>" lines.
// Dictionary entries and composite fields are rendered in sorted order, so the result does not depend on
// slab indices or hash seeds (comparable between engines).
func DumpValues(l *host.Ledger) ([]string, error) {
	r := Inspect(l)
	return r.Values, walkError(r)
}

func walkError(r *Report) error {
	for _, p := range r.Problems {
		switch p.Class {
		case "value-decode", "account-root-unreadable", "stored-register-malformed", "slab-decode", "dangling-slab-ref", "domain-unknown":
			return fmt.Errorf("audit: storage not fully walkable: %s", p)
		}
	}
	return nil
}

// ---------------------------------------------------------------- inspection

func decodeStorable(decoder *cbor.StreamDecoder, id atree.SlabID, inlined []atree.ExtraData) (atree.Storable, error) {
	return interpreter.DecodeStorable(decoder, id, inlined, nil)
}

func decodeTypeInfo(decoder *cbor.StreamDecoder) (atree.TypeInfo, error) {
	return interpreter.DecodeTypeInfo(decoder, nil)
}

func slabIDOf(owner common.Address, key string) atree.SlabID {
	var idx atree.SlabIndex
	copy(idx[:], key[1:])
	return atree.NewSlabID(atree.Address(owner), idx)
}

func protect(f func()) (err error) {
	defer func() {
		if r := recover(); r != nil {
			if e, ok := r.(error); ok {
				err = e
			} else {
				err = fmt.Errorf("%v", r)
			}
		}
	}()
	f()
	return nil
}

// Inspect runs the whole audit.
func Inspect(l *host.Ledger) *Report {
	rep := &Report{}
	regs, odd := Registers(l)
	for _, o := range odd {
		rep.add("odd-register-owner", "register key %s has no 8-byte owner", o)
	}

	// ---- (1) classify registers; decode every slab independently of any SlabStorage
	type slabInfo struct {
		slab     atree.Slab
		children []atree.SlabID
	}
	slabs := map[atree.SlabID]*slabInfo{}
	var slabOrder []atree.SlabID
	accountRoots := map[atree.SlabID]common.Address{}
	var accountOrder []atree.SlabID
	for _, r := range regs {
		if len(r.Value) == 0 {
			rep.Tombstones++
			continue
		}
		rep.Registers++
		switch {
		case r.Key == runtime.AccountStorageKey:
			rep.Accounts++
			if len(r.Value) != 8 {
				rep.add("stored-register-malformed", "account %s: `stored` register has %d bytes: %x", r.Owner, len(r.Value), r.Value)
				continue
			}
			id := atree.NewSlabID(atree.Address(r.Owner), atree.SlabIndex(r.Value))
			accountRoots[id] = r.Owner
			accountOrder = append(accountOrder, id)
		case IsSlabKey(r.Key):
			rep.Slabs++
			id := slabIDOf(r.Owner, r.Key)
			var slab atree.Slab
			var derr error
			if perr := protect(func() {
				slab, derr = atree.DecodeSlab(id, r.Value, interpreter.CBORDecMode, decodeStorable, decodeTypeInfo)
			}); perr != nil {
				derr = fmt.Errorf("panic: %w", perr)
			}
			if derr != nil {
				rep.add("slab-decode", "register %s does not decode as a slab: %v (%d bytes)", id, derr, len(r.Value))
				continue
			}
			slabs[id] = &slabInfo{slab: slab}
			slabOrder = append(slabOrder, id)
		default:
			rep.Unknown++
		}
	}

	// ---- (2) independent slab graph: references, parents, roots
	parentOf := map[atree.SlabID]atree.SlabID{}
	for _, id := range slabOrder {
		info := slabs[id]
		var cerr error
		if perr := protect(func() {
			stack := info.slab.ChildStorables()
			for len(stack) > 0 {
				s := stack[len(stack)-1]
				stack = stack[:len(stack)-1]
				if sid, ok := s.(atree.SlabIDStorable); ok {
					info.children = append(info.children, atree.SlabID(sid))
					continue
				}
				stack = append(stack, s.ChildStorables()...)
			}
		}); perr != nil {
			cerr = perr
		}
		if cerr != nil {
			rep.add("slab-decode", "slab %s: child storables cannot be listed: %v", id, cerr)
			continue
		}
		for _, ch := range info.children {
			if _, ok := slabs[ch]; !ok {
				rep.add("dangling-slab-ref", "slab %s references %s which is not in the ledger", id, ch)
				continue
			}
			if ch.Address() != id.Address() {
				rep.add("cross-account-slab-ref", "slab %s references %s owned by another account", id, ch)
			}
			if p, dup := parentOf[ch]; dup {
				rep.add("slab-double-ref", "slab %s is referenced by both %s and %s", ch, p, id)
				continue
			}
			parentOf[ch] = id
		}
	}
	var roots []atree.SlabID
	for _, id := range slabOrder {
		if _, has := parentOf[id]; !has {
			roots = append(roots, id)
		}
	}
	rep.RootSlabs = len(roots)
	for _, id := range roots {
		if _, ok := accountRoots[id]; !ok {
			rep.add("orphan-root-slab", "root slab %s (%s) is not an account storage-map root", id, slabKind(slabs[id].slab))
		}
	}
	for _, id := range accountOrder {
		if _, ok := slabs[id]; !ok {
			rep.add("account-root-missing", "account %s: `stored` points at %s which is not a (decodable) slab in the ledger", accountRoots[id], id)
			continue
		}
		if p, has := parentOf[id]; has {
			rep.add("account-root-not-root", "account storage map %s is referenced by slab %s", id, p)
		}
	}
	// cycle / unreachability (a cycle has no root): every slab must reach a root by parent links
	for _, id := range slabOrder {
		cur := id
		steps := 0
		for {
			p, has := parentOf[cur]
			if !has {
				break
			}
			cur = p
			steps++
			if steps > len(slabOrder) {
				rep.add("slab-cycle", "slab %s is on or below a reference cycle", id)
				break
			}
		}
	}

	// ---- (3) atree's own health check on a fresh runtime storage with every slab loaded
	rol := &ReadOnlyLedger{L: l}
	storage := runtime.NewStorage(rol, nil, nil, runtime.StorageConfig{})
	loaded := true
	for _, id := range slabOrder {
		var ok bool
		var rerr error
		if perr := protect(func() { _, ok, rerr = storage.Retrieve(id) }); perr != nil {
			rerr = perr
		}
		if rerr != nil || !ok {
			rep.add("slab-retrieve", "slab %s cannot be retrieved through runtime storage: ok=%v err=%v", id, ok, rerr)
			loaded = false
		}
	}
	if loaded {
		var atreeRoots map[atree.SlabID]struct{}
		var herr error
		if perr := protect(func() { atreeRoots, herr = atree.CheckStorageHealth(storage, -1) }); perr != nil {
			herr = perr
		}
		if herr != nil {
			rep.add("atree-health:"+healthClass(herr), "atree.CheckStorageHealth: %v", herr)
		} else {
			var ids []atree.SlabID
			for id := range atreeRoots {
				ids = append(ids, id)
			}
			sort.Slice(ids, func(i, j int) bool { return ids[i].Compare(ids[j]) < 0 })
			for _, id := range ids {
				if _, ok := accountRoots[id]; !ok {
					rep.add("atree-root-not-account-root", "atree reports root slab %s which no `stored` register names", id)
				}
			}
			for _, id := range accountOrder {
				if _, ok := atreeRoots[id]; !ok {
					if _, present := slabs[id]; present {
						rep.add("account-root-not-atree-root", "account root %s is not among atree's root slabs", id)
					}
				}
			}
		}
	}

	// ---- (4) walk every stored value through the account storage maps
	inter, ierr := interpreter.NewInterpreter(nil, nil, &interpreter.Config{Storage: storage})
	if ierr != nil {
		rep.add("audit-internal", "cannot create interpreter: %v", ierr)
		return rep
	}
	w := &walker{rep: rep, inter: inter}
	for _, rootID := range accountOrder {
		if _, ok := slabs[rootID]; !ok {
			continue
		}
		addr := accountRoots[rootID]
		type dom struct {
			d common.StorageDomain
			m *interpreter.DomainStorageMap
		}
		var doms []dom
		if perr := protect(func() {
			asm := interpreter.NewAccountStorageMapWithRootID(nil, storage, rootID)
			it := asm.Iterator()
			for {
				d, m := it.Next(nil)
				if m == nil {
					break
				}
				doms = append(doms, dom{d, m})
			}
		}); perr != nil {
			rep.add("account-root-unreadable", "account %s: storage map %s cannot be read: %v", addr, rootID, perr)
			continue
		}
		sort.Slice(doms, func(i, j int) bool { return doms[i].d < doms[j].d })
		for _, dm := range doms {
			w.domain(addr, dm.d, dm.m)
		}
	}
	if rol.Writes > 0 {
		rep.add("audit-internal", "the audit attempted %d ledger writes", rol.Writes)
	}
	sort.Strings(rep.Values)
	sort.Slice(rep.Resources, func(i, j int) bool {
		a, b := rep.Resources[i], rep.Resources[j]
		if a.UUID != b.UUID {
			return a.UUID < b.UUID
		}
		return a.Path < b.Path
	})
	return rep
}

func slabKind(s atree.Slab) string {
	return strings.TrimPrefix(fmt.Sprintf("%T", s), "*atree.")
}

// healthClass normalises atree's health-check message to a stable class.
func healthClass(err error) string {
	m := err.Error()
	switch {
	case strings.Contains(m, "two parents"):
		return "two-parents"
	case strings.Contains(m, "at least two references"):
		return "leaf-double-ref"
	case strings.Contains(m, "not reachable from leaves"):
		return "unreachable"
	case strings.Contains(m, "not owned by the same account"):
		return "owner-mismatch"
	case strings.Contains(m, "slab not found"), strings.Contains(m, "failed to get"):
		return "slab-not-found"
	case strings.Contains(m, "duplicate slab"):
		return "duplicate"
	}
	return "other"
}

// ---------------------------------------------------------------- value walk

type walker struct {
	rep   *Report
	inter *interpreter.Interpreter
}

func keyString(k atree.Value) string {
	switch k := k.(type) {
	case interpreter.StringAtreeValue:
		return string(k)
	case interpreter.Uint64AtreeValue:
		return fmt.Sprintf("#%d", uint64(k))
	}
	return fmt.Sprintf("?%v", k)
}

func (w *walker) domain(addr common.Address, d common.StorageDomain, m *interpreter.DomainStorageMap) {
	type kv struct {
		k string
		v interpreter.Value
	}
	var kvs []kv
	base := fmt.Sprintf("0x%s/%s", addr.Hex(), d.Identifier())
	if perr := protect(func() {
		it := m.Iterator()
		for {
			k, v := it.Next(nil)
			if k == nil {
				break
			}
			kvs = append(kvs, kv{keyString(k), v})
		}
	}); perr != nil {
		w.rep.add("value-decode", "%s: domain map cannot be iterated: %v", base, perr)
	}
	if uint64(len(kvs)) != m.Count() {
		w.rep.add("domain-count-mismatch", "%s: iterated %d entries, Count() = %d", base, len(kvs), m.Count())
	}
	for _, e := range kvs {
		w.rep.StoredValues++
		loc := base + "/" + e.k
		var s, tid string
		if perr := protect(func() {
			s = w.render(e.v, addr, loc, 1)
			tid = string(e.v.StaticType(w.inter).ID())
		}); perr != nil {
			w.rep.add("value-decode", "%s: stored value cannot be walked: %v", loc, perr)
			continue
		}
		w.rep.Values = append(w.rep.Values, loc+" = "+s+" : "+tid)
	}
}

// render walks v, records resources, and returns the canonical string of v.
func (w *walker) render(v interpreter.Value, owner common.Address, loc string, depth int) string {
	if depth > w.rep.MaxDepth {
		w.rep.MaxDepth = depth
	}
	switch v := v.(type) {
	case *interpreter.SomeValue:
		return w.render(v.InnerValue(), owner, loc+"?", depth)
	case *interpreter.ArrayValue:
		if got := common.Address(v.StorageAddress()); got != owner {
			w.rep.add("owner-mismatch", "%s: array is owned by %s inside storage of %s", loc, got, owner)
		}
		var parts []string
		i := 0
		v.Iterate(w.inter, func(e interpreter.Value) bool {
			parts = append(parts, w.render(e, owner, fmt.Sprintf("%s[%d]", loc, i), depth+1))
			i++
			return true
		}, false)
		if i != v.Count() {
			w.rep.add("array-count-mismatch", "%s: iterated %d elements, Count() = %d", loc, i, v.Count())
		}
		return "[" + strings.Join(parts, ", ") + "]"
	case *interpreter.DictionaryValue:
		if got := common.Address(v.StorageAddress()); got != owner {
			w.rep.add("owner-mismatch", "%s: dictionary is owned by %s inside storage of %s", loc, got, owner)
		}
		type ent struct{ k, v string }
		var ents []ent
		v.Iterate(w.inter, func(k, e interpreter.Value) bool {
			ks := w.render(k, owner, loc+"{key}", depth+1)
			ents = append(ents, ent{ks, w.render(e, owner, loc+"{"+clip(ks, 40)+"}", depth+1)})
			return true
		})
		if len(ents) != v.Count() {
			w.rep.add("dictionary-count-mismatch", "%s: iterated %d entries, Count() = %d", loc, len(ents), v.Count())
		}
		sort.Slice(ents, func(i, j int) bool { return ents[i].k < ents[j].k })
		parts := make([]string, len(ents))
		for i, e := range ents {
			parts[i] = e.k + ": " + e.v
		}
		return "{" + strings.Join(parts, ", ") + "}"
	case *interpreter.CompositeValue:
		if got := common.Address(v.StorageAddress()); got != owner {
			w.rep.add("owner-mismatch", "%s: composite %s is owned by %s inside storage of %s", loc, v.TypeID(), got, owner)
		}
		type fld struct{ n, v string }
		var flds []fld
		var uuid uint64
		hasUUID := false
		v.ForEachField(w.inter, func(name string, fv interpreter.Value) bool {
			if name == "uuid" {
				if u, ok := fv.(interpreter.UInt64Value); ok {
					uuid = uint64(u)
					hasUUID = true
				}
			}
			sep := "."
			flds = append(flds, fld{name, w.render(fv, owner, loc+sep+name, depth+1)})
			return true
		})
		switch v.Kind {
		case common.CompositeKindResource:
			if !hasUUID {
				w.rep.add("resource-without-uuid", "%s: resource %s has no uuid field", loc, v.TypeID())
			}
			w.rep.Resources = append(w.rep.Resources, Resource{UUID: uuid, TypeID: string(v.TypeID()), Owner: owner, Path: loc})
		case common.CompositeKindAttachment:
			w.rep.Attachments++
		}
		sort.Slice(flds, func(i, j int) bool { return flds[i].n < flds[j].n })
		parts := make([]string, len(flds))
		for i, f := range flds {
			parts[i] = f.n + ": " + f.v
		}
		return string(v.TypeID()) + "(" + strings.Join(parts, ", ") + ")"
	case nil:
		return "<nil>"
	}
	return v.String()
}

// ---------------------------------------------------------------- register diff

// Diff lists registers that differ between two ledgers as "0x<owner>/<key-hex>: <a-len> -> <b-len>".
func Diff(a, b *host.Ledger) []string {
	var out []string
	seen := map[string]bool{}
	add := func(k string) {
		if seen[k] {
			return
		}
		seen[k] = true
		va, vb := a.Values[k], b.Values[k]
		if bytes.Equal(va, vb) {
			return
		}
		out = append(out, fmt.Sprintf("%s: %d -> %d bytes", hex.EncodeToString([]byte(k)), len(va), len(vb)))
	}
	for k := range a.Values {
		add(k)
	}
	for k := range b.Values {
		add(k)
	}
	sort.Strings(out)
	return out
}

// SlabIndexOf decodes a big-endian slab index (helper for witnesses).
func SlabIndexOf(b []byte) uint64 {
	if len(b) != 8 {
		return 0
	}
	return binary.BigEndian.Uint64(b)
}
