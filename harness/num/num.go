// Package num describes Cadence's numeric types to the oracles (math/big side)
// and builds interpreter values from exact integers.
package num

import (
	"fmt"
	"math/big"
	"math/rand/v2"
	"strings"

	"github.com/onflow/cadence/interpreter"
)

type IntType struct {
	Name   string
	Signed bool
	Bits   int // 0 = unbounded
	Word   bool
	Make   func(*big.Int) interpreter.NumberValue
}

func (t IntType) Min() *big.Int {
	if t.Bits == 0 {
		if t.Signed {
			return nil
		}
		return big.NewInt(0)
	}
	if !t.Signed {
		return big.NewInt(0)
	}
	return new(big.Int).Neg(new(big.Int).Lsh(big.NewInt(1), uint(t.Bits-1)))
}

func (t IntType) Max() *big.Int {
	if t.Bits == 0 {
		return nil
	}
	if t.Signed {
		return new(big.Int).Sub(new(big.Int).Lsh(big.NewInt(1), uint(t.Bits-1)), big.NewInt(1))
	}
	return new(big.Int).Sub(new(big.Int).Lsh(big.NewInt(1), uint(t.Bits)), big.NewInt(1))
}

func (t IntType) InRange(x *big.Int) bool {
	if mn := t.Min(); mn != nil && x.Cmp(mn) < 0 {
		return false
	}
	if mx := t.Max(); mx != nil && x.Cmp(mx) > 0 {
		return false
	}
	return true
}

// Wrap reduces x modulo 2^Bits into the type's range (two's complement for signed).
func (t IntType) Wrap(x *big.Int) *big.Int {
	if t.Bits == 0 {
		return new(big.Int).Set(x)
	}
	m := new(big.Int).Lsh(big.NewInt(1), uint(t.Bits))
	r := new(big.Int).Mod(x, m) // Euclidean: 0 <= r < m
	if t.Signed && r.Cmp(t.Max()) > 0 {
		r.Sub(r, m)
	}
	return r
}

var IntTypes = []IntType{
	{"Int8", true, 8, false, func(b *big.Int) interpreter.NumberValue { return interpreter.NewUnmeteredInt8Value(int8(b.Int64())) }},
	{"Int16", true, 16, false, func(b *big.Int) interpreter.NumberValue { return interpreter.NewUnmeteredInt16Value(int16(b.Int64())) }},
	{"Int32", true, 32, false, func(b *big.Int) interpreter.NumberValue { return interpreter.NewUnmeteredInt32Value(int32(b.Int64())) }},
	{"Int64", true, 64, false, func(b *big.Int) interpreter.NumberValue { return interpreter.NewUnmeteredInt64Value(b.Int64()) }},
	{"Int128", true, 128, false, func(b *big.Int) interpreter.NumberValue {
		return interpreter.NewUnmeteredInt128ValueFromBigInt(new(big.Int).Set(b))
	}},
	{"Int256", true, 256, false, func(b *big.Int) interpreter.NumberValue {
		return interpreter.NewUnmeteredInt256ValueFromBigInt(new(big.Int).Set(b))
	}},
	{"Int", true, 0, false, func(b *big.Int) interpreter.NumberValue {
		return interpreter.NewUnmeteredIntValueFromBigInt(new(big.Int).Set(b))
	}},
	{"UInt8", false, 8, false, func(b *big.Int) interpreter.NumberValue { return interpreter.NewUnmeteredUInt8Value(uint8(b.Uint64())) }},
	{"UInt16", false, 16, false, func(b *big.Int) interpreter.NumberValue { return interpreter.NewUnmeteredUInt16Value(uint16(b.Uint64())) }},
	{"UInt32", false, 32, false, func(b *big.Int) interpreter.NumberValue { return interpreter.NewUnmeteredUInt32Value(uint32(b.Uint64())) }},
	{"UInt64", false, 64, false, func(b *big.Int) interpreter.NumberValue { return interpreter.NewUnmeteredUInt64Value(b.Uint64()) }},
	{"UInt128", false, 128, false, func(b *big.Int) interpreter.NumberValue {
		return interpreter.NewUnmeteredUInt128ValueFromBigInt(new(big.Int).Set(b))
	}},
	{"UInt256", false, 256, false, func(b *big.Int) interpreter.NumberValue {
		return interpreter.NewUnmeteredUInt256ValueFromBigInt(new(big.Int).Set(b))
	}},
	{"UInt", false, 0, false, func(b *big.Int) interpreter.NumberValue {
		return interpreter.NewUnmeteredUIntValueFromBigInt(new(big.Int).Set(b))
	}},
	{"Word8", false, 8, true, func(b *big.Int) interpreter.NumberValue { return interpreter.NewUnmeteredWord8Value(uint8(b.Uint64())) }},
	{"Word16", false, 16, true, func(b *big.Int) interpreter.NumberValue { return interpreter.NewUnmeteredWord16Value(uint16(b.Uint64())) }},
	{"Word32", false, 32, true, func(b *big.Int) interpreter.NumberValue { return interpreter.NewUnmeteredWord32Value(uint32(b.Uint64())) }},
	{"Word64", false, 64, true, func(b *big.Int) interpreter.NumberValue { return interpreter.NewUnmeteredWord64Value(b.Uint64()) }},
	{"Word128", false, 128, true, func(b *big.Int) interpreter.NumberValue {
		return interpreter.NewUnmeteredWord128ValueFromBigInt(new(big.Int).Set(b))
	}},
	{"Word256", false, 256, true, func(b *big.Int) interpreter.NumberValue {
		return interpreter.NewUnmeteredWord256ValueFromBigInt(new(big.Int).Set(b))
	}},
}

func IntTypeByName(n string) IntType {
	for _, t := range IntTypes {
		if t.Name == n {
			return t
		}
	}
	panic("no int type " + n)
}

// ToBig reads an integer value's mathematical value from its decimal string
// (independent of the value's internal representation).
func ToBig(v fmt.Stringer) *big.Int {
	s := v.String()
	b, ok := new(big.Int).SetString(s, 10)
	if !ok {
		panic(fmt.Sprintf("not an integer string: %q", s))
	}
	return b
}

// ToRat reads a fixed-point (or integer) value from its decimal string.
func ToRat(v fmt.Stringer) *big.Rat {
	s := v.String()
	r, ok := new(big.Rat).SetString(s)
	if !ok {
		panic(fmt.Sprintf("not a decimal string: %q", s))
	}
	return r
}

func pow2(k int) *big.Int { return new(big.Int).Lsh(big.NewInt(1), uint(k)) }

// Boundary returns the boundary set of an integer type (deduplicated, in range).
func Boundary(t IntType) []*big.Int {
	var c []*big.Int
	add := func(x *big.Int) {
		for d := int64(-2); d <= 2; d++ {
			c = append(c, new(big.Int).Add(x, big.NewInt(d)))
		}
	}
	add(big.NewInt(0))
	bits := t.Bits
	if bits == 0 {
		bits = 200
	}
	for _, k := range []int{7, 8, 15, 16, 31, 32, 63, 64, 127, 128, 255, 256, bits / 2, bits/2 - 1, bits - 1, bits - 2, bits} {
		if k <= 0 || k > bits+1 {
			continue
		}
		add(pow2(k))
		add(new(big.Int).Neg(pow2(k)))
	}
	if mx := t.Max(); mx != nil {
		add(mx)
		sq := new(big.Int).Sqrt(mx)
		add(sq)
		add(new(big.Int).Neg(sq))
		add(new(big.Int).Div(mx, big.NewInt(2)))
		add(new(big.Int).Div(mx, big.NewInt(3)))
		add(new(big.Int).Div(mx, big.NewInt(10)))
	}
	if mn := t.Min(); mn != nil {
		add(mn)
		add(new(big.Int).Div(mn, big.NewInt(2)))
		add(new(big.Int).Div(mn, big.NewInt(3)))
	}
	add(big.NewInt(10))
	add(big.NewInt(100))
	add(big.NewInt(-10))
	seen := map[string]bool{}
	var out []*big.Int
	for _, x := range c {
		if !t.InRange(x) {
			continue
		}
		k := x.String()
		if seen[k] {
			continue
		}
		seen[k] = true
		out = append(out, x)
	}
	return out
}

// Random draws a value of the type, biased to varied magnitudes.
func Random(t IntType, r *rand.Rand) *big.Int {
	bits := t.Bits
	if bits == 0 {
		bits = 64 * (1 + r.IntN(6))
	}
	k := 1 + r.IntN(bits)
	x := new(big.Int)
	for i := 0; i < (k+63)/64; i++ {
		x.Lsh(x, 64)
		x.Or(x, new(big.Int).SetUint64(r.Uint64()))
	}
	x.And(x, new(big.Int).Sub(pow2(k), big.NewInt(1)))
	if t.Signed && r.IntN(2) == 0 {
		x.Neg(x)
	}
	if !t.InRange(x) {
		if t.Bits != 0 {
			x = t.Wrap(x)
		} else {
			x.Abs(x)
		}
	}
	return x
}

// ---- fixed point

type FixType struct {
	Name   string
	Signed bool
	Scale  int
	Bits   int
	// Make builds the value from the raw scaled integer.
	Make func(raw *big.Int) interpreter.NumberValue
}

func (t FixType) Factor() *big.Int { return new(big.Int).Exp(big.NewInt(10), big.NewInt(int64(t.Scale)), nil) }

func (t FixType) MinRaw() *big.Int {
	if !t.Signed {
		return big.NewInt(0)
	}
	return new(big.Int).Neg(pow2(t.Bits - 1))
}

func (t FixType) MaxRaw() *big.Int {
	if t.Signed {
		return new(big.Int).Sub(pow2(t.Bits-1), big.NewInt(1))
	}
	return new(big.Int).Sub(pow2(t.Bits), big.NewInt(1))
}

func (t FixType) InRangeRaw(x *big.Int) bool {
	return x.Cmp(t.MinRaw()) >= 0 && x.Cmp(t.MaxRaw()) <= 0
}

var FixTypes = []FixType{
	{"Fix64", true, 8, 64, func(raw *big.Int) interpreter.NumberValue { return interpreter.NewUnmeteredFix64Value(raw.Int64()) }},
	{"UFix64", false, 8, 64, func(raw *big.Int) interpreter.NumberValue { return interpreter.NewUnmeteredUFix64Value(raw.Uint64()) }},
	{"Fix128", true, 24, 128, func(raw *big.Int) interpreter.NumberValue {
		return interpreter.NewFix128ValueFromBigInt(nil, new(big.Int).Set(raw))
	}},
	{"UFix128", false, 24, 128, func(raw *big.Int) interpreter.NumberValue {
		return interpreter.NewUFix128ValueFromBigInt(nil, new(big.Int).Set(raw))
	}},
}

func FixTypeByName(n string) FixType {
	for _, t := range FixTypes {
		if t.Name == n {
			return t
		}
	}
	panic("no fix type " + n)
}

// RawOf reads the raw scaled integer of a fixed-point value from its decimal string.
func RawOf(t FixType, v fmt.Stringer) *big.Int {
	s := v.String()
	neg := strings.HasPrefix(s, "-")
	s = strings.TrimPrefix(s, "-")
	ip, fp, _ := strings.Cut(s, ".")
	if len(fp) > t.Scale {
		panic("too many fractional digits in " + s)
	}
	fp = fp + strings.Repeat("0", t.Scale-len(fp))
	b, ok := new(big.Int).SetString(ip+fp, 10)
	if !ok {
		panic("bad fixed-point string " + s)
	}
	if neg {
		b.Neg(b)
	}
	return b
}

// FixString renders a raw scaled integer as a Cadence fixed-point literal.
func FixString(t FixType, raw *big.Int) string {
	neg := raw.Sign() < 0
	a := new(big.Int).Abs(raw)
	q, r := new(big.Int).QuoRem(a, t.Factor(), new(big.Int))
	fs := r.String()
	fs = strings.Repeat("0", t.Scale-len(fs)) + fs
	s := q.String() + "." + fs
	if neg {
		s = "-" + s
	}
	return s
}

func FixBoundary(t FixType) []*big.Int {
	var c []*big.Int
	add := func(x *big.Int) {
		for d := int64(-1); d <= 1; d++ {
			c = append(c, new(big.Int).Add(x, big.NewInt(d)))
		}
	}
	f := t.Factor()
	add(big.NewInt(0))
	add(f)
	add(new(big.Int).Neg(f))
	add(new(big.Int).Mul(f, big.NewInt(2)))
	add(new(big.Int).Mul(f, big.NewInt(-3)))
	add(new(big.Int).Div(f, big.NewInt(2)))
	add(new(big.Int).Div(f, big.NewInt(3)))
	add(new(big.Int).Div(f, big.NewInt(-7)))
	add(t.MaxRaw())
	add(t.MinRaw())
	add(new(big.Int).Div(t.MaxRaw(), big.NewInt(2)))
	add(new(big.Int).Div(t.MinRaw(), big.NewInt(2)))
	// sqrt(max * factor): products straddle the range
	sq := new(big.Int).Sqrt(new(big.Int).Mul(t.MaxRaw(), f))
	add(sq)
	add(new(big.Int).Neg(sq))
	// sqrt(factor): products straddle one unit
	sf := new(big.Int).Sqrt(f)
	add(sf)
	add(new(big.Int).Neg(sf))
	add(new(big.Int).Mul(sf, big.NewInt(3)))
	add(new(big.Int).Div(t.MaxRaw(), f))
	add(new(big.Int).Mul(f, f))
	add(big.NewInt(5))
	add(big.NewInt(-5))
	seen := map[string]bool{}
	var out []*big.Int
	for _, x := range c {
		if !t.InRangeRaw(x) {
			continue
		}
		k := x.String()
		if seen[k] {
			continue
		}
		seen[k] = true
		out = append(out, x)
	}
	return out
}

func FixRandom(t FixType, r *rand.Rand) *big.Int {
	k := 1 + r.IntN(t.Bits)
	x := new(big.Int)
	for i := 0; i < (k+63)/64; i++ {
		x.Lsh(x, 64)
		x.Or(x, new(big.Int).SetUint64(r.Uint64()))
	}
	x.And(x, new(big.Int).Sub(pow2(k), big.NewInt(1)))
	if t.Signed && r.IntN(2) == 0 {
		x.Neg(x)
	}
	if !t.InRangeRaw(x) {
		x.Rsh(x, 1)
	}
	return x
}

// PanicKind classifies a recovered panic value from a direct call by its Go type
// (interpreter.* and values.* both define the arithmetic error kinds).
func PanicKind(r any) string {
	tn := fmt.Sprintf("%T", r)
	switch {
	case strings.HasSuffix(tn, ".OverflowError"):
		return "Overflow"
	case strings.HasSuffix(tn, ".UnderflowError"):
		return "Underflow"
	case strings.HasSuffix(tn, ".DivisionByZeroError"):
		return "DivisionByZero"
	case strings.HasSuffix(tn, ".NegativeShiftError"):
		return "NegativeShift"
	case strings.HasSuffix(tn, ".MemoryMeteringError"):
		return "MemoryMetering"
	}
	return tn
}
