package main

import (
	"verif/harness/core"
	_ "verif/harness/props/misc"
)

func main() { core.Main() }
