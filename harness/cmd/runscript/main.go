package main

import (
	"fmt"
	"os"

	"verif/harness/host"
)

func main() {
	src, _ := os.ReadFile(os.Args[1])
	for _, e := range host.AllEngines {
		h := host.New()
		o := h.RunScript(e, string(src), nil, nil)
		fmt.Println(e, "value:", o.Value, "logs:", h.Logs)
		if o.Err != nil {
			fmt.Println(" err:", o.Err)
		}
	}
}
