package main

import (
	"verif/harness/core"
	_ "verif/harness/props/types"
)

func main() { core.Main() }
