package main

import (
	"verif/harness/core"
	_ "verif/harness/props/codec"
)

func main() { core.Main() }
