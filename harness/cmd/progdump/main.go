// progdump: debugging aid — prints generated programs and their outcome on one engine.
package main

import (
	"flag"
	"fmt"
	"math/rand/v2"

	"github.com/onflow/cadence/common"

	gen "verif/harness/gen/prog"
	"verif/harness/host"
)

func main() {
	seed := flag.Uint64("seed", 1, "")
	n := flag.Int("n", 20, "")
	tx := flag.Bool("tx", false, "")
	show := flag.Bool("show", false, "print every program")
	flag.Parse()
	kinds := map[string]int{}
	for i := 0; i < *n; i++ {
		r := rand.New(rand.NewPCG(*seed, uint64(i)))
		w := gen.NewWorld(r)
		var o host.Outcome
		var src string
		if *tx {
			h := host.New()
			contract := gen.ContractSource(w)
			d := h.Deploy(host.EngI, host.Addr(1), "C0", contract)
			if d.Err != nil {
				fmt.Println("=== DEPLOY FAILED\n", contract, "\n", d.Err)
				kinds["deploy-fail"]++
				continue
			}
			p := gen.Transaction(r, w, 12)
			src = p.Source
			o = h.RunTx(host.EngI, p.Source, nil, []common.Address{host.Addr(1)}, nil)
		} else {
			p := gen.Script(r, w, 12)
			src = p.Source
			h := host.New()
			o = h.RunScript(host.EngI, p.Source, nil, nil)
		}
		k := "ok"
		if o.Err != nil {
			ks := host.ErrKinds(o.Err)
			k = fmt.Sprint(ks)
		}
		kinds[k]++
		if *show || (o.Err != nil && kinds[k] <= 1) {
			fmt.Println("=== program", i, "\n"+src)
			if o.Err != nil {
				fmt.Println("--- error:", o.Err)
			}
		}
	}
	for k, v := range kinds {
		fmt.Println(v, k)
	}
}
