package main

import (
	"verif/harness/core"
	_ "verif/harness/props/refs"
)

func main() { core.Main() }
