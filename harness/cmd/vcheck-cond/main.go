package main

import (
	"verif/harness/core"
	_ "verif/harness/props/cond"
)

func main() { core.Main() }
