package main

import (
	"verif/harness/core"
	_ "verif/harness/props/hist"
)

func main() { core.Main() }
