package main

import (
	"verif/harness/core"
	_ "verif/harness/props/syntax"
)

func main() { core.Main() }
