package main

import (
	"verif/harness/core"
	_ "verif/harness/props/num2"
)

func main() { core.Main() }
