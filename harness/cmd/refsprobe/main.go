// refsprobe: calibration helper for the refs group (C04/C05).
// usage: refsprobe file.cdc...   Each file is either a script, or a history:
//   sections separated by lines starting with "//--- contract NAME" / "//--- tx" / "//--- script".
// refsprobe -c04contract | -c05contract prints the fixed contract used by the generated programs
// (put it in a "//--- contract C0" / "//--- contract C5" section to replay a witness).
package main

import (
	"fmt"
	"os"
	"strings"

	"github.com/onflow/cadence/common"

	"verif/harness/host"
	"verif/harness/props/refs"
)

func main() {
	for _, f := range os.Args[1:] {
		switch f {
		case "-c04contract":
			fmt.Print(refs.C04Contract())
			continue
		case "-c05contract":
			fmt.Print(refs.C05Contract())
			continue
		}
		b, err := os.ReadFile(f)
		if err != nil {
			fmt.Println(err)
			continue
		}
		src := string(b)
		fmt.Println("=====", f)
		if !strings.Contains(src, "//--- ") {
			for _, e := range host.AllEngines {
				h := host.New()
				o := h.RunScript(e, src, nil, nil)
				report(e, h, o)
			}
			continue
		}
		type sec struct{ kind, name, body string }
		var secs []sec
		for _, part := range strings.Split(src, "//--- ")[1:] {
			nl := strings.Index(part, "\n")
			hdr := strings.Fields(part[:nl])
			s := sec{kind: hdr[0], body: part[nl+1:]}
			if len(hdr) > 1 {
				s.name = hdr[1]
			}
			secs = append(secs, s)
		}
		for _, e := range host.AllEngines {
			h := host.New()
			for i, s := range secs {
				h.ResetTrace()
				var o host.Outcome
				switch s.kind {
				case "contract":
					o = h.Deploy(e, host.Addr(1), s.name, s.body)
				case "tx":
					o = h.RunTx(e, s.body, nil, []common.Address{host.Addr(1)}, nil)
				case "script":
					o = h.RunScript(e, s.body, nil, nil)
				}
				fmt.Printf("[%d %s] ", i, s.kind)
				report(e, h, o)
			}
		}
	}
}

func report(e host.Engine, h *host.Host, o host.Outcome) {
	fmt.Printf("%-2s class=%s value=%v logs=%q events=%v\n", e, host.Classify(o), o.Value, h.Logs, h.Events)
	if o.Err != nil || o.Escaped != nil {
		ks := host.ErrKinds(o.Err)
		if os.Getenv("FULL") != "" {
			fmt.Println("   kinds:", ks)
			fmt.Println("   err:", strings.ReplaceAll(host.ErrText(o), "\n", "\n        "))
		} else {
			t := host.ErrText(o)
			line := ""
			for _, l := range strings.Split(t, "\n") {
				if strings.Contains(l, "error:") {
					line = strings.TrimSpace(l)
					break
				}
			}
			k := ""
			if len(ks) > 0 {
				k = ks[len(ks)-1]
			}
			fmt.Println("     ", k, "|", line)
		}
	}
}
