package main

import (
	"verif/harness/core"
	_ "verif/harness/props/evt"
)

func main() { core.Main() }
