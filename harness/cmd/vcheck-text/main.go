package main

import (
	"verif/harness/core"
	_ "verif/harness/props/text"
)

func main() { core.Main() }
