package main

import (
	"verif/harness/core"
	_ "verif/harness/props/arith"
)

func main() { core.Main() }
