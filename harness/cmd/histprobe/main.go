package main

import (
	"fmt"

	"github.com/onflow/cadence/common"

	"verif/harness/audit"
	"verif/harness/host"
)

func main() {
	src := `transaction { prepare(a: auth(Storage) &Account) { a.storage.save([1,2,3], to: /storage/a) } }`
	for _, eng := range host.AllEngines {
		for _, mode := range []string{"refuse-EncodeValue", "comp-limit", "mem-limit"} {
			h := host.New()
			// learn totals
			comp := &host.Gauge{Record: true}
			mem := &host.Gauge{Record: true}
			o := h.RunTx(eng, src, nil, []common.Address{host.Addr(1)}, &host.Options{Config: host.DefaultConfig, Comp: comp, Mem: mem})
			if o.Err != nil {
				panic(o.Err)
			}
			h = host.New()
			opt := &host.Options{Config: host.DefaultConfig}
			switch mode {
			case "refuse-EncodeValue":
				opt.Comp = &host.Gauge{RefuseComp: map[common.ComputationKind]bool{common.ComputationKindEncodeValue: true}}
			case "comp-limit":
				opt.Comp = &host.Gauge{CompLimit: comp.CompTotal - 1}
			case "mem-limit":
				opt.Mem = &host.Gauge{MemLimit: mem.MemTotal - 1}
			}
			o = h.RunTx(eng, src, nil, []common.Address{host.Addr(1)}, opt)
			n := 0
			for _, r := range h.Recs {
				if r.Kind == host.KSetValue {
					n++
					fmt.Println("   ", r)
				}
			}
			fmt.Printf("%s %-20s totals comp=%d mem=%d: failed=%v SetValue calls=%d ledger registers=%d health=%v\n", eng, mode, comp.CompTotal, mem.MemTotal, o.Err != nil, n, len(h.Ledger.Dump()), audit.Health(h.Ledger))
		}
	}
}
