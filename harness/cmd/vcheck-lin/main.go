package main

import (
	"verif/harness/core"
	_ "verif/harness/props/lin"
)

func main() { core.Main() }
