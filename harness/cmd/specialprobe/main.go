// specialprobe: debugging aid — runs the special transactions of the generator on all engines.
package main

import (
	"fmt"
	"math/rand/v2"

	"github.com/onflow/cadence/common"

	gen "verif/harness/gen/prog"
	"verif/harness/host"
)

func main() {
	for i := 0; i < 12; i++ {
		r := rand.New(rand.NewPCG(7, uint64(i)))
		w := gen.NewWorld(r)
		p := gen.MultiAccountTx(r)
		for _, eng := range host.AllEngines {
			h := host.New()
			d := h.Deploy(eng, host.Addr(1), "C0", gen.ContractSource(w))
			if d.Err != nil {
				fmt.Println("deploy failed", d.Err)
				continue
			}
			h.ResetTrace()
			o := h.RunTx(eng, p.Source, nil, []common.Address{host.Addr(1), host.Addr(2), host.Addr(3), host.Addr(4), host.Addr(5)}[:p.Signers], nil)
			var w []string
			for _, r := range h.Recs {
				if r.Kind == host.KSetValue && len(r.A) < 40 {
					w = append(w, r.A[:16])
				}
			}
			fmt.Println(i, eng, "writes", w, "err:", host.ErrKinds(o.Err))
			if o.Err != nil && eng == host.EngI {
				fmt.Println(p.Source)
				fmt.Println(host.ErrText(o))
			}
		}
	}
}
