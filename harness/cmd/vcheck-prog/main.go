package main

import (
	"verif/harness/core"
	_ "verif/harness/props/prog"
)

func main() { core.Main() }
