package main

import (
	"verif/harness/core"
	_ "verif/harness/props/stor"
)

func main() { core.Main() }
