package main

import (
	"verif/harness/core"
	_ "verif/harness/props/conc"
)

func main() { core.Main() }
