package main

import (
	"verif/harness/core"
	_ "verif/harness/props/caps"
)

func main() { core.Main() }
