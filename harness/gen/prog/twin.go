package prog

import "fmt"

// TwinTx creates resources of the *twin* contract (the same contract source deployed under the
// same name to account 0x2) and stores them next to resources of the 0x1 contract, so that a later
// transaction (SweeperTx) destroys same-named resource types of two locations in one execution.
func TwinTx(r *R) *Program {
	p := &Program{Tx: true, Features: map[string]int{"tx_twin_contract": 1}}
	src := "import C0 from 0x2\ntransaction {\n    prepare(acct: auth(Storage) &Account) {\n"
	n := 1 + r.IntN(3)
	for i := 0; i < n; i++ {
		path := fmt.Sprintf("/storage/r%d", r.IntN(4))
		k := r.IntN(50)
		if r.IntN(3) == 0 {
			src += fmt.Sprintf("        if acct.storage.type(at: %s) == nil { acct.storage.save(<- C0.make1(%d), to: %s) }\n", path, k, path)
		} else {
			src += fmt.Sprintf("        if acct.storage.type(at: %s) == nil { acct.storage.save(<- C0.make(%d), to: %s) }\n", path, k, path)
		}
	}
	src += "        log(\"__END__\")\n    }\n}\n"
	p.Source = src
	return p
}
