package prog

import "fmt"

// Special transactions: shapes the statement-level generator cannot produce because they
// concern the transaction's own structure (no imports, transaction fields, several phases).

// SweeperTx destroys stored resources WITHOUT importing the contract that declares them:
// the resources' types (and their destruction events) must be loaded on demand.
func SweeperTx(r *R) *Program {
	p := &Program{Tx: true, Features: map[string]int{"tx_sweeper_no_import": 1}}
	src := "transaction {\n    prepare(acct: auth(Storage) &Account) {\n"
	n := 0
	for _, path := range []string{"r0", "r1", "r2", "r3", "s0", "s1", "s2"} {
		if r.IntN(2) == 0 {
			continue
		}
		n++
		src += fmt.Sprintf("        let x%d <- acct.storage.load<@AnyResource>(from: /storage/%s)\n", n, path)
		switch r.IntN(3) {
		case 0:
			src += fmt.Sprintf("        destroy x%d\n", n)
		case 1:
			src += fmt.Sprintf("        if let y%d <- x%d { log(y%d.getType().identifier); destroy y%d }\n", n, n, n, n)
		default:
			src += fmt.Sprintf("        let a%d: @[AnyResource?] <- [<- x%d]\n        destroy a%d\n", n, n, n)
		}
	}
	src += "        log(\"__END__\")\n    }\n}\n"
	p.Source = src
	return p
}

// FieldTx uses resource-typed transaction fields across the prepare / execute phases.
func FieldTx(r *R) *Program {
	p := &Program{Tx: true, Features: map[string]int{"tx_resource_field": 1}}
	k := r.IntN(40)
	src := "import C0 from 0x1\ntransaction {\n    var r: @C0.R0?\n    var box: @C0.R1\n    prepare(acct: auth(Storage) &Account) {\n"
	src += fmt.Sprintf("        self.r <- C0.make(%d)\n        self.box <- C0.make1(%d)\n    }\n    execute {\n", k, k+1)
	switch r.IntN(4) {
	case 0:
		p.Features["tx_field_force_assign_nonnil"] = 1
		src += fmt.Sprintf("        self.r <-! C0.make(%d)\n", k+2)
	case 1:
		p.Features["tx_field_second_value"] = 1
		src += fmt.Sprintf("        let old <- self.r <- C0.make(%d)\n        destroy old\n", k+2)
	case 2:
		p.Features["tx_field_swap"] = 1
		src += fmt.Sprintf("        var t: @C0.R0? <- C0.make(%d)\n        self.r <-> t\n        destroy t\n", k+2)
	default:
		p.Features["tx_field_nested_put"] = 1
		src += fmt.Sprintf("        self.box.putKid(<- C0.make(%d))\n", k+2)
	}
	src += "        log(self.box.kidCount())\n        let x <- self.r <- nil\n        destroy x\n        log(\"__END__\")\n    }\n    post { true: \"always\" }\n}\n"
	// fields must be destroyed/moved by the end of execute: box is consumed in a final phase
	src = replaceLast(src, "        log(\"__END__\")\n", "        destroy self.box\n        destroy self.r\n        log(\"__END__\")\n")
	p.Source = src
	return p
}

func replaceLast(s, old, new string) string {
	i := lastIndex(s, old)
	if i < 0 {
		return s
	}
	return s[:i] + new + s[i+len(old):]
}

func lastIndex(s, sub string) int {
	for i := len(s) - len(sub); i >= 0; i-- {
		if s[i:i+len(sub)] == sub {
			return i
		}
	}
	return -1
}
