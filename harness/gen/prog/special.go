package prog

import "fmt"

// Special transactions: shapes the statement-level generator cannot produce because they
// concern the transaction's own structure (no imports, transaction fields, several phases).

// SweeperTx destroys stored resources WITHOUT importing the contract that declares them:
// the resources' types (and their destruction events) must be loaded on demand.
func SweeperTx(r *R) *Program {
	p := &Program{Tx: true, Features: map[string]int{"tx_sweeper_no_import": 1}}
	src := "transaction {\n    prepare(acct: auth(Storage) &Account) {\n"
	n := 0
	for _, path := range []string{"r0", "r1", "r2", "r3", "s0", "s1", "s2"} {
		if r.IntN(2) == 0 {
			continue
		}
		n++
		src += fmt.Sprintf("        let x%d <- acct.storage.load<@AnyResource>(from: /storage/%s)\n", n, path)
		switch r.IntN(3) {
		case 0:
			src += fmt.Sprintf("        destroy x%d\n", n)
		case 1:
			src += fmt.Sprintf("        if let y%d <- x%d { log(y%d.getType().identifier); destroy y%d }\n", n, n, n, n)
		default:
			src += fmt.Sprintf("        let a%d: @[AnyResource?] <- [<- x%d]\n        destroy a%d\n", n, n, n)
		}
	}
	src += "        log(\"__END__\")\n    }\n}\n"
	p.Source = src
	return p
}

// FieldTx uses resource-typed transaction fields across the prepare / execute phases.
func FieldTx(r *R) *Program {
	p := &Program{Tx: true, Features: map[string]int{"tx_resource_field": 1}}
	k := r.IntN(40)
	src := "import C0 from 0x1\ntransaction {\n    var r: @C0.R0?\n    var box: @C0.R1\n    prepare(acct: auth(Storage) &Account) {\n"
	src += fmt.Sprintf("        self.r <- C0.make(%d)\n        self.box <- C0.make1(%d)\n    }\n    execute {\n", k, k+1)
	switch r.IntN(4) {
	case 0:
		p.Features["tx_field_force_assign_nonnil"] = 1
		src += fmt.Sprintf("        self.r <-! C0.make(%d)\n", k+2)
	case 1:
		p.Features["tx_field_second_value"] = 1
		src += fmt.Sprintf("        let old <- self.r <- C0.make(%d)\n        destroy old\n", k+2)
	case 2:
		p.Features["tx_field_swap"] = 1
		src += fmt.Sprintf("        var t: @C0.R0? <- C0.make(%d)\n        self.r <-> t\n        destroy t\n", k+2)
	default:
		p.Features["tx_field_nested_put"] = 1
		src += fmt.Sprintf("        self.box.putKid(<- C0.make(%d))\n", k+2)
	}
	src += "        log(self.box.kidCount())\n        let x <- self.r <- nil\n        destroy x\n        log(\"__END__\")\n    }\n    post { true: \"always\" }\n}\n"
	// fields must be destroyed/moved by the end of execute: box is consumed in a final phase
	src = replaceLast(src, "        log(\"__END__\")\n", "        destroy self.box\n        destroy self.r\n        log(\"__END__\")\n")
	p.Source = src
	return p
}

func replaceLast(s, old, new string) string {
	i := lastIndex(s, old)
	if i < 0 {
		return s
	}
	return s[:i] + new + s[i+len(old):]
}

func lastIndex(s, sub string) int {
	for i := len(s) - len(sub); i >= 0; i-- {
		if s[i:i+len(sub)] == sub {
			return i
		}
	}
	return -1
}

// MultiAccountTx touches the storage of several accounts (some of them never used before) in one
// transaction, so that one commit creates several account storage maps and writes many registers.
func MultiAccountTx(r *R) *Program {
	n := 3 + r.IntN(3) // signers
	p := &Program{Tx: true, Signers: n, Features: map[string]int{"tx_multi_account": 1}}
	src := "import C0 from 0x1\ntransaction {\n    prepare("
	for i := 0; i < n; i++ {
		if i > 0 {
			src += ", "
		}
		src += fmt.Sprintf("a%d: auth(Storage) &Account", i)
	}
	src += ") {\n"
	for i := 0; i < n; i++ {
		k := r.IntN(50)
		path := fmt.Sprintf("/storage/m%d", r.IntN(3))
		switch r.IntN(4) {
		case 0:
			src += fmt.Sprintf("        if a%d.storage.type(at: %s) == nil { a%d.storage.save(<- C0.make(%d), to: %s) }\n", i, path, i, k, path)
		case 1:
			src += fmt.Sprintf("        if a%d.storage.type(at: %s) == nil { a%d.storage.save(<- C0.make1(%d), to: %s) }\n", i, path, i, k, path)
		case 2:
			src += fmt.Sprintf("        if a%d.storage.type(at: %s) == nil { a%d.storage.save([%d, %d, %d], to: %s) }\n", i, path, i, k, k+1, k+2, path)
		default:
			src += fmt.Sprintf("        if a%d.storage.type(at: %s) == nil { a%d.storage.save({\"k\": \"%d\"}, to: %s) }\n", i, path, i, k, path)
		}
	}
	src += "        log(\"__END__\")\n    }\n}\n"
	p.Source = src
	return p
}
