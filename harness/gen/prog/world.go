package prog

import (
	"fmt"
	"strings"
)

// NewWorld draws a declaration universe.
func NewWorld(r *R) *World {
	w := &World{Ents: []string{"E0", "E1", "E2"}}
	w.EnumName = "Color"
	w.EnumCases = []string{"red", "green", "blue"}
	w.EnumType = &Type{K: KEnum, Name: "Color"}

	// struct interface
	si := &Interface{Name: "SI0", Default: map[string]bool{}}
	si.Funcs = append(si.Funcs,
		&Func{Name: "sig0", Params: []Param{{"x", TInt}}, Ret: TInt, Pre: "x > -1000000", Post: "before(x) == x && result == result", Access: "access(all)"},
		&Func{Name: "dflt", Ret: TInt, View: true, Body: "return 7", Access: "access(all)"},
	)
	si.Default["dflt"] = true
	w.Ifaces = append(w.Ifaces, si)
	ri := &Interface{Name: "RI0", Resource: true, Default: map[string]bool{}}
	ri.Funcs = append(ri.Funcs,
		&Func{Name: "rsig", Ret: TInt, Access: "access(all)", Post: "result >= -1000000"},
		&Func{Name: "rdflt", Params: []Param{{"k", TInt}}, Ret: TInt, Body: "return k + 1", Access: "access(all)", Pre: "k < 1000000"},
	)
	ri.Default["rdflt"] = true
	w.Ifaces = append(w.Ifaces, ri)

	// structs
	ns := 2 + r.IntN(2)
	for i := 0; i < ns; i++ {
		c := &Composite{Name: ident("S", i)}
		c.T = &Type{K: KStruct, Name: c.Name}
		pool := []*Type{TInt, TInt, TString, TBool, TUInt8, TInt64, TUFix64, TAddress, Opt(TInt), Arr(TInt), Arr(TString),
			Dict(TString, TInt), Dict(TInt, TString), w.EnumType, Opt(TString), TWord16, TUInt128, TFix64}
		for _, prev := range w.Structs {
			pool = append(pool, prev.T, Opt(prev.T), Arr(prev.T))
		}
		nf := 2 + r.IntN(4)
		c.Fields = append(c.Fields, Field{Name: "a", T: TInt, Var: true})
		for j := 1; j < nf; j++ {
			c.Fields = append(c.Fields, Field{Name: ident("f", j), T: pick(r, pool), Var: r.IntN(2) == 0})
		}
		// methods
		c.Funcs = append(c.Funcs,
			&Func{Name: "getA", Ret: TInt, View: true, Body: "return self.a", Access: "access(all)"},
			&Func{Name: "bump", Params: []Param{{"d", TInt}}, Ret: TInt, Body: "self.a = self.a + d\n        return self.a", Access: "access(all)", Post: "self.a == before(self.a) + d"},
			&Func{Name: "guarded", Ret: TInt, View: true, Body: "return self.a * 2", Access: "access(E0)"},
			&Func{Name: "guarded2", Ret: TInt, View: true, Body: "return self.a - 1", Access: "access(E0 | E1)"},
		)
		if i == 0 || r.IntN(2) == 0 {
			c.Conforms = append(c.Conforms, si)
			c.Funcs = append(c.Funcs, &Func{Name: "sig0", Params: []Param{{"y", TInt}}, Ret: TInt, Body: "return y + self.a", Access: "access(all)"})
			if r.IntN(2) == 0 {
				c.Funcs = append(c.Funcs, &Func{Name: "dflt", Ret: TInt, View: true, Body: "return self.a + 100", Access: "access(all)"})
			}
		}
		// a closure that captures self and escapes the method
		c.Extra = "access(all) fun mk(): fun(Int): Int {\n    return fun (d: Int): Int { return self.a + d + self.getA() }\n}"
		w.Structs = append(w.Structs, c)
	}

	// resources: R0 leaf, R1 holds R0s
	r0 := &Composite{Name: "R0", Resource: true}
	r0.T = &Type{K: KRes, Name: "R0"}
	r0.Fields = []Field{{"id", TInt, false}, {"n", TInt, true}, {"tag", TString, true}}
	r0.Conforms = []*Interface{ri}
	r0.Funcs = []*Func{
		{Name: "inc", Ret: TInt, Body: "self.n = self.n + 1\n        return self.n", Access: "access(all)"},
		{Name: "rsig", Ret: TInt, Body: "return self.id", Access: "access(all)"},
		{Name: "peek", Ret: TInt, View: true, Body: "return self.n + self.id", Access: "access(all)"},
		{Name: "locked", Ret: TInt, Body: "return self.n", Access: "access(E1)"},
	}
	r1 := &Composite{Name: "R1", Resource: true}
	r1.T = &Type{K: KRes, Name: "R1"}
	r1.Fields = []Field{{"id", TInt, false}, {"n", TInt, true}, {"child", Opt(r0.T), true}, {"kids", Arr(r0.T), true}, {"bag", Dict(TString, r0.T), true}}
	r1.Conforms = []*Interface{ri}
	r1.Funcs = []*Func{
		{Name: "rsig", Ret: TInt, Body: "return self.id + self.kids.length", Access: "access(all)"},
		{Name: "putKid", Params: []Param{{"k", r0.T}}, Body: "self.kids.append(<-k)", Access: "access(all)"},
		{Name: "takeKid", Ret: Opt(r0.T), Body: "if self.kids.length == 0 {\n            return nil\n        }\n        return <- self.kids.removeLast()", Access: "access(all)"},
		{Name: "setChild", Params: []Param{{"k", r0.T}}, Body: "let old <- self.child <- k\n        destroy old", Access: "access(all)"},
		{Name: "takeChild", Ret: Opt(r0.T), Body: "let c <- self.child <- nil\n        return <- c", Access: "access(all)"},
		{Name: "putBag", Params: []Param{{"key", TString}, {"k", r0.T}}, Body: "let old <- self.bag.insert(key: key, <-k)\n        destroy old", Access: "access(all)"},
		{Name: "takeBag", Params: []Param{{"key", TString}}, Ret: Opt(r0.T), Body: "return <- self.bag.remove(key: key)", Access: "access(all)"},
		{Name: "kidCount", Ret: TInt, View: true, Body: "return self.kids.length + self.bag.length + (self.child == nil ? 0 : 1)", Access: "access(all)"},
		{Name: "kidSum", Ret: TInt, Body: "var s = 0\n        var i = 0\n        while i < self.kids.length {\n            s = s + self.kids[i].n\n            i = i + 1\n        }\n        return s", Access: "access(all)"},
	}
	w.Resources = []*Composite{r0, r1}

	// events
	evPool := []*Type{TInt, TString, TBool, TUInt8, TUFix64, TAddress, Opt(TInt), Arr(TInt), Dict(TString, TInt), Arr(TString), Opt(TString), TInt64, TFix64}
	for i := 0; i < 2+r.IntN(2); i++ {
		e := &Event{Name: ident("Ev", i)}
		for j := 0; j < 1+r.IntN(3); j++ {
			e.Params = append(e.Params, Param{ident("p", j), pick(r, evPool)})
		}
		w.Events = append(w.Events, e)
	}
	if r.IntN(3) != 0 {
		w.Attachment = "A0"
	}
	return w
}

func (w *World) fieldParams(c *Composite) string {
	var ps []string
	for _, f := range c.Fields {
		if c.Resource && (f.Name == "child" || f.Name == "kids" || f.Name == "bag" || f.Name == "n" || f.Name == "tag") {
			continue
		}
		ps = append(ps, f.Name+": "+f.T.Src())
	}
	return strings.Join(ps, ", ")
}

func funcSrc(f *Func, indent string, withBody bool) string {
	var sb strings.Builder
	var ps []string
	for _, p := range f.Params {
		ps = append(ps, "_ "+p.Name+": "+p.T.Src())
	}
	view := ""
	if f.View {
		view = "view "
	}
	ret := ""
	if f.Ret != nil {
		ret = ": " + f.Ret.Src()
	}
	fmt.Fprintf(&sb, "%s%s %sfun %s(%s)%s", indent, f.Access, view, f.Name, strings.Join(ps, ", "), ret)
	hasCond := f.Pre != "" || f.Post != ""
	if !withBody && !hasCond {
		sb.WriteString("\n")
		return sb.String()
	}
	sb.WriteString(" {\n")
	if f.Pre != "" {
		fmt.Fprintf(&sb, "%s    pre { %s: \"pre %s\" }\n", indent, f.Pre, f.Name)
	}
	if f.Post != "" {
		fmt.Fprintf(&sb, "%s    post { %s: \"post %s\" }\n", indent, f.Post, f.Name)
	}
	if withBody {
		fmt.Fprintf(&sb, "%s    %s\n", indent, f.Body)
	}
	fmt.Fprintf(&sb, "%s}\n", indent)
	return sb.String()
}

// Decls renders all declarations. indent is the nesting indent (contracts nest declarations).
func (w *World) Decls(indent string) string {
	var sb strings.Builder
	for _, e := range w.Ents {
		fmt.Fprintf(&sb, "%saccess(all) entitlement %s\n", indent, e)
	}
	fmt.Fprintf(&sb, "%saccess(all) enum %s: UInt8 {\n", indent, w.EnumName)
	for _, c := range w.EnumCases {
		fmt.Fprintf(&sb, "%s    access(all) case %s\n", indent, c)
	}
	fmt.Fprintf(&sb, "%s}\n", indent)
	for _, e := range w.Events {
		var ps []string
		for _, p := range e.Params {
			ps = append(ps, p.Name+": "+p.T.Src())
		}
		fmt.Fprintf(&sb, "%saccess(all) event %s(%s)\n", indent, e.Name, strings.Join(ps, ", "))
	}
	fmt.Fprintf(&sb, "%saccess(all) event Fired(n: Int, s: String)\n", indent)
	for _, i := range w.Ifaces {
		kind := "struct"
		if i.Resource {
			kind = "resource"
		}
		fmt.Fprintf(&sb, "%saccess(all) %s interface %s {\n", indent, kind, i.Name)
		for _, f := range i.Funcs {
			sb.WriteString(funcSrc(f, indent+"    ", i.Default[f.Name]))
		}
		fmt.Fprintf(&sb, "%s}\n", indent)
	}
	for _, c := range append(append([]*Composite{}, w.Structs...), w.Resources...) {
		kind := "struct"
		if c.Resource {
			kind = "resource"
		}
		conf := ""
		if len(c.Conforms) > 0 {
			var ns []string
			for _, i := range c.Conforms {
				ns = append(ns, i.Name)
			}
			conf = ": " + strings.Join(ns, ", ")
		}
		fmt.Fprintf(&sb, "%saccess(all) %s %s%s {\n", indent, kind, c.Name, conf)
		if c.Resource {
			fmt.Fprintf(&sb, "%s    access(all) event ResourceDestroyed(uuid: UInt64 = self.uuid, id: Int = self.id, n: Int = self.n)\n", indent)
		}
		for _, f := range c.Fields {
			kw := "let"
			if f.Var {
				kw = "var"
			}
			fmt.Fprintf(&sb, "%s    access(all) %s %s: %s\n", indent, kw, f.Name, f.T.Src())
		}
		fmt.Fprintf(&sb, "%s    init(%s) {\n", indent, w.fieldParams(c))
		for _, f := range c.Fields {
			switch {
			case c.Resource && f.Name == "child":
				fmt.Fprintf(&sb, "%s        self.child <- nil\n", indent)
			case c.Resource && f.Name == "kids":
				fmt.Fprintf(&sb, "%s        self.kids <- []\n", indent)
			case c.Resource && f.Name == "bag":
				fmt.Fprintf(&sb, "%s        self.bag <- {}\n", indent)
			case c.Resource && f.Name == "n":
				fmt.Fprintf(&sb, "%s        self.n = id * 10\n", indent)
			case c.Resource && f.Name == "tag":
				fmt.Fprintf(&sb, "%s        self.tag = \"t\".concat(id.toString())\n", indent)
			default:
				fmt.Fprintf(&sb, "%s        self.%s = %s\n", indent, f.Name, f.Name)
			}
		}
		fmt.Fprintf(&sb, "%s    }\n", indent)
		for _, f := range c.Funcs {
			sb.WriteString(funcSrc(f, indent+"    ", true))
		}
		if c.Extra != "" {
			for _, l := range strings.Split(c.Extra, "\n") {
				sb.WriteString(indent + "    " + l + "\n")
			}
		}
		fmt.Fprintf(&sb, "%s}\n", indent)
	}
	fmt.Fprintf(&sb, "%saccess(all) attachment RA0 for R0 {\n%s    access(all) let w: Int\n%s    init(w: Int) { self.w = w }\n%s    access(all) view fun total(): Int { return self.w + base.n + base.id }\n%s}\n", indent, indent, indent, indent, indent)
	if w.Attachment != "" {
		fmt.Fprintf(&sb, "%saccess(all) attachment A0 for S0 {\n%s    access(all) let k: Int\n%s    init(k: Int) { self.k = k }\n%s    access(all) view fun sum(): Int { return self.k + base.a }\n%s}\n", indent, indent, indent, indent, indent)
	}
	return sb.String()
}

// Helpers renders the helper functions (top level of a script, or inside the contract).
func (w *World) Helpers(indent string) string {
	var sb strings.Builder
	p := func(s string) {
		for _, l := range strings.Split(s, "\n") {
			sb.WriteString(indent + l + "\n")
		}
	}
	p("access(all) fun rec(_ n: Int): Int {\n    if n <= 0 { return 0 }\n    return 1 + " + w.self() + "rec(n - 1)\n}")
	p("access(all) fun eat(_ r: @R0): Int {\n    let n = r.n\n    destroy r\n    return n\n}")
	p("access(all) fun make(_ i: Int): @R0 {\n    return <- create R0(id: i)\n}")
	p("access(all) fun make1(_ i: Int): @R1 {\n    let r <- create R1(id: i)\n    r.putKid(<- create R0(id: i + 1))\n    return <- r\n}")
	p("access(all) fun viaRef(_ r: &S0): Int {\n    return r.a + r.getA()\n}")
	p("access(all) fun viaAuth(_ r: auth(E0) &S0): Int {\n    return r.guarded() + r.guarded2()\n}")
	p("access(all) fun viaIface(_ s: {SI0}): Int {\n    return s.sig0(3) + s.dflt()\n}")
	p("access(all) fun viaRIface(_ r: &{RI0}): Int {\n    return r.rsig() + r.rdflt(2)\n}")
	p("access(all) view fun clampIdx(_ i: Int, _ n: Int): Int {\n    if n <= 0 { return 0 }\n    let m = i % n\n    return m < 0 ? m + n : m\n}")
	p("access(all) fun fire(_ n: Int, _ s: String) {\n    emit Fired(n: n, s: s)\n}")
	p("access(all) fun adder(_ k: Int): fun(Int): Int {\n    return fun (x: Int): Int { return x + k }\n}")
	return sb.String()
}

// self is the receiver prefix for helper functions calling each other:
// as contract members they are reached through self.
func (w *World) self() string {
	if w.InContract {
		return "self."
	}
	return ""
}
