// Package prog is the typed Cadence program generator (DESIGN.md §3.1).
// It builds a declaration world (entitlements, interfaces, structs, resources, enums, events,
// attachments) and type-directed bodies that the real checker accepts most of the time.
package prog

import (
	"fmt"
	"math/rand/v2"
	"strings"
)

type Kind int

const (
	KNum Kind = iota
	KBool
	KString
	KAddress
	KCharacter
	KOpt
	KArr
	KDict
	KStruct
	KRes
	KEnum
	KAnyStruct
	KRef
	KPath
)

type Type struct {
	K    Kind
	Name string
	Elem *Type
	Key  *Type
	Auth string
}

func (t *Type) Src() string {
	switch t.K {
	case KNum, KStruct, KEnum:
		return t.Name
	case KBool:
		return "Bool"
	case KString:
		return "String"
	case KAddress:
		return "Address"
	case KCharacter:
		return "Character"
	case KAnyStruct:
		return "AnyStruct"
	case KPath:
		return "StoragePath"
	case KRes:
		return "@" + t.Name
	case KOpt:
		if t.Elem.IsResource() {
			return "@" + t.Elem.bare() + "?"
		}
		if t.Elem.K == KRef {
			return "(" + t.Elem.Src() + ")?"
		}
		return t.Elem.Src() + "?"
	case KArr:
		if t.Elem.IsResource() {
			return "@[" + t.Elem.bare() + "]"
		}
		return "[" + t.Elem.Src() + "]"
	case KDict:
		if t.Elem.IsResource() {
			return "@{" + t.Key.Src() + ": " + t.Elem.bare() + "}"
		}
		return "{" + t.Key.Src() + ": " + t.Elem.Src() + "}"
	case KRef:
		a := ""
		if t.Auth != "" {
			a = "auth(" + t.Auth + ") "
		}
		return a + "&" + t.Elem.bare()
	}
	panic("bad type")
}

// bare is the type source without the leading resource annotation.
func (t *Type) bare() string {
	s := t.Src()
	return strings.TrimPrefix(s, "@")
}

func (t *Type) IsResource() bool {
	switch t.K {
	case KRes:
		return true
	case KOpt, KArr, KDict:
		return t.Elem.IsResource()
	}
	return false
}

func (t *Type) Eq(o *Type) bool { return t.Src() == o.Src() }

func (t *Type) String() string { return t.Src() }

var (
	TInt     = &Type{K: KNum, Name: "Int"}
	TInt8    = &Type{K: KNum, Name: "Int8"}
	TInt64   = &Type{K: KNum, Name: "Int64"}
	TUInt8   = &Type{K: KNum, Name: "UInt8"}
	TUInt64  = &Type{K: KNum, Name: "UInt64"}
	TUInt128 = &Type{K: KNum, Name: "UInt128"}
	TWord16  = &Type{K: KNum, Name: "Word16"}
	TUFix64  = &Type{K: KNum, Name: "UFix64"}
	TFix64   = &Type{K: KNum, Name: "Fix64"}
	TBool    = &Type{K: KBool}
	TString  = &Type{K: KString}
	TAddress = &Type{K: KAddress}
	TChar    = &Type{K: KCharacter}
	TAny     = &Type{K: KAnyStruct}
)

var numTypes = []*Type{TInt, TInt8, TInt64, TUInt8, TUInt64, TUInt128, TWord16, TUFix64, TFix64}

func Opt(t *Type) *Type           { return &Type{K: KOpt, Elem: t} }
func Arr(t *Type) *Type           { return &Type{K: KArr, Elem: t} }
func Dict(k, v *Type) *Type       { return &Type{K: KDict, Key: k, Elem: v} }
func Ref(t *Type, a string) *Type { return &Type{K: KRef, Elem: t, Auth: a} }

func isFixed(t *Type) bool { return t.Name == "UFix64" || t.Name == "Fix64" }
func isSigned(t *Type) bool {
	return strings.HasPrefix(t.Name, "Int") || t.Name == "Fix64"
}

// ---- declarations of the world

type Field struct {
	Name string
	T    *Type
	Var  bool
}

type Param struct {
	Name string
	T    *Type
}

type Func struct {
	Name   string
	Params []Param
	Ret    *Type // nil = Void
	View   bool
	Pre    string // condition source or ""
	Post   string
	Body   string // set by the generator
	Access string
}

type Interface struct {
	Name     string
	Resource bool
	Funcs    []*Func // signatures, some with default bodies
	Default  map[string]bool
}

type Composite struct {
	Name     string
	Resource bool
	Fields   []Field
	Funcs    []*Func
	Conforms []*Interface
	T        *Type
	Extra    string // extra members, rendered verbatim
}

type Event struct {
	Name   string
	Params []Param
}

type World struct {
	Ents       []string
	Ifaces     []*Interface
	Structs    []*Composite
	Resources  []*Composite
	EnumName   string
	EnumCases  []string
	EnumType   *Type
	Events     []*Event
	TopFuncs   []*Func
	Attachment string // name of a struct attachment for Structs[0], or ""
	InContract bool   // declarations are rendered as members of contract C0
}

func (w *World) comp(name string) *Composite {
	for _, c := range w.Structs {
		if c.Name == name {
			return c
		}
	}
	for _, c := range w.Resources {
		if c.Name == name {
			return c
		}
	}
	return nil
}

type R = rand.Rand

func pick[T any](r *R, xs []T) T { return xs[r.IntN(len(xs))] }

func ident(prefix string, i int) string { return fmt.Sprintf("%s%d", prefix, i) }
