package prog

import (
	"fmt"
	"regexp"
	"strings"
)

// Var is a variable in scope.
type Var struct {
	Name    string
	T       *Type
	Mutable bool
	Owned   bool // resources: still owned (not yet moved)
	Depth   int  // scope depth of declaration
}

type Gen struct {
	R     *R
	W     *World
	Tx    bool // transaction mode: storage available through `acct`
	Edgy  bool // also emit operations that may fail at run time with user errors
	sb    strings.Builder
	ind   int
	vars  []*Var
	depth int
	next  int
	// Features records which feature groups the program uses.
	Features map[string]int
	budget   int
	inLoop   int
	obs      []string // names of non-resource variables worth returning
}

func (g *Gen) feat(f string) { g.Features[f]++ }

func (g *Gen) line(format string, a ...any) {
	g.sb.WriteString(strings.Repeat("    ", g.ind))
	fmt.Fprintf(&g.sb, format, a...)
	g.sb.WriteString("\n")
}

func (g *Gen) fresh(p string) string {
	g.next++
	return fmt.Sprintf("%s%d", p, g.next)
}

func (g *Gen) declare(name string, t *Type, mutable bool) *Var {
	v := &Var{Name: name, T: t, Mutable: mutable, Owned: t.IsResource(), Depth: g.depth}
	g.vars = append(g.vars, v)
	return v
}

func (g *Gen) varsOf(pred func(*Var) bool) []*Var {
	var out []*Var
	for _, v := range g.vars {
		if pred(v) {
			out = append(out, v)
		}
	}
	return out
}

func (g *Gen) valVars(t *Type) []*Var {
	return g.varsOf(func(v *Var) bool { return !v.T.IsResource() && v.T.Eq(t) })
}

// ---------------------------------------------------------------- literals

func (g *Gen) numLit(t *Type) string {
	r := g.R
	switch t.Name {
	case "UFix64":
		return fmt.Sprintf("%d.%02d", r.IntN(50), r.IntN(100))
	case "Fix64":
		s := ""
		if r.IntN(3) == 0 {
			s = "-"
		}
		return fmt.Sprintf("%s%d.%d", s, r.IntN(50), r.IntN(10))
	case "Int8":
		return fmt.Sprint(r.IntN(20) - 10)
	case "UInt8", "Word16":
		return fmt.Sprint(r.IntN(40))
	case "Int", "Int64":
		if r.IntN(8) == 0 {
			return fmt.Sprint(r.IntN(2000000) - 1000000)
		}
		return fmt.Sprint(r.IntN(40) - 8)
	}
	return fmt.Sprint(r.IntN(100))
}

var words = []string{"", "x", "ab", "hello", "caf\\u{e9}", "e\\u{301}", "zz top", "\\u{1F600}", "q\\n", "0"}

func (g *Gen) lit(t *Type, depth int) string {
	r := g.R
	switch t.K {
	case KNum:
		if t == TInt || t.Name == "Int" {
			l := g.numLit(t)
			if strings.HasPrefix(l, "-") {
				return "(0 " + l[:1] + " " + l[1:] + ")"
			}
			return l
		}
		return "(" + g.numLit(t) + " as " + t.Name + ")"
	case KBool:
		if r.IntN(2) == 0 {
			return "true"
		}
		return "false"
	case KString:
		return "\"" + pick(r, words) + "\""
	case KCharacter:
		return "(\"" + pick(r, []string{"a", "z", "\\u{e9}"}) + "\" as Character)"
	case KAddress:
		return fmt.Sprintf("(0x%x as Address)", 1+r.IntN(5))
	case KEnum:
		return g.W.EnumName + "." + pick(r, g.W.EnumCases)
	case KAnyStruct:
		return g.anyOf(pick(r, []*Type{TInt, TString, TBool}), depth+1)
	case KOpt:
		if r.IntN(3) == 0 {
			return "(nil as " + t.Src() + ")"
		}
		return "(" + g.expr(t.Elem, depth+1) + " as " + t.Src() + ")"
	case KArr:
		n := r.IntN(4)
		if depth > 2 {
			n = r.IntN(2)
		}
		var es []string
		for i := 0; i < n; i++ {
			es = append(es, g.expr(t.Elem, depth+1))
		}
		return "([" + strings.Join(es, ", ") + "] as " + t.Src() + ")"
	case KDict:
		n := r.IntN(3)
		var es []string
		for i := 0; i < n; i++ {
			var k string
			if t.Key.K == KString {
				k = fmt.Sprintf("\"k%d\"", i)
			} else {
				k = fmt.Sprint(i * 3)
			}
			es = append(es, k+": "+g.expr(t.Elem, depth+1))
		}
		return "({" + strings.Join(es, ", ") + "} as " + t.Src() + ")"
	case KStruct:
		c := g.W.comp(t.Name)
		var as []string
		for _, f := range c.Fields {
			as = append(as, f.Name+": "+g.expr(f.T, depth+1))
		}
		return c.Name + "(" + strings.Join(as, ", ") + ")"
	}
	panic("lit: " + t.Src())
}

// ---------------------------------------------------------------- expressions

// expr produces a non-resource expression of exactly type t.
func (g *Gen) expr(t *Type, depth int) string {
	r := g.R
	if depth > 3 || g.budget <= 0 {
		if vs := g.valVars(t); len(vs) > 0 && r.IntN(2) == 0 {
			return pick(r, vs).Name
		}
		return g.lit(t, depth)
	}
	g.budget--
	// variables of that type
	if vs := g.valVars(t); len(vs) > 0 && r.IntN(3) == 0 {
		return pick(r, vs).Name
	}
	// field of a struct variable
	if r.IntN(4) == 0 {
		for _, v := range g.varsOf(func(v *Var) bool { return v.T.K == KStruct }) {
			c := g.W.comp(v.T.Name)
			for _, f := range c.Fields {
				if f.T.Eq(t) && r.IntN(2) == 0 {
					g.feat("member_read")
					return v.Name + "." + f.Name
				}
			}
		}
	}
	switch t.K {
	case KNum:
		return g.numExpr(t, depth)
	case KBool:
		return g.boolExpr(depth)
	case KString:
		return g.strExpr(depth)
	case KOpt:
		switch r.IntN(5) {
		case 0:
			// dictionary lookup
			if t.Elem.K == KNum || t.Elem.K == KString {
				for _, v := range g.varsOf(func(v *Var) bool { return v.T.K == KDict && v.T.Elem.Eq(t.Elem) }) {
					g.feat("dict_lookup")
					return v.Name + "[" + g.expr(v.T.Key, depth+1) + "]"
				}
			}
		case 1:
			// failable cast through AnyStruct
			g.feat("cast_failable")
			src := pick(r, []*Type{t.Elem, TInt, TString, TBool})
			return "(" + g.anyOf(src, depth+1) + " as? " + t.Elem.Src() + ")"
		case 2:
			// optional chaining on an optional struct
			for _, v := range g.varsOf(func(v *Var) bool { return v.T.K == KOpt && v.T.Elem.K == KStruct }) {
				c := g.W.comp(v.T.Elem.Name)
				for _, f := range c.Fields {
					// `v?.f` has type X? both for a field of type X and for a field of type X? (flattened)
					if (f.T.Eq(t.Elem) && f.T.K != KOpt) || f.T.Eq(t) {
						g.feat("optional_chaining")
						return v.Name + "?." + f.Name
					}
				}
			}
		}
		return g.lit(t, depth)
	case KArr:
		switch r.IntN(5) {
		case 0:
			for _, v := range g.valVars(t) {
				g.feat("array_concat")
				return v.Name + ".concat(" + g.lit(t, depth+1) + ")"
			}
		case 1:
			for _, v := range g.valVars(t) {
				g.feat("array_slice")
				return v.Name + ".slice(from: 0, upTo: " + v.Name + ".length > 1 ? 1 : 0)"
			}
		case 2:
			if t.Elem.K == KNum && t.Elem.Name == "Int" {
				for _, v := range g.valVars(t) {
					g.feat("array_map_filter")
					if r.IntN(2) == 0 {
						return v.Name + ".map(fun (x: Int): Int { return x * 2 + 1 })"
					}
					return v.Name + ".filter(view fun (x: Int): Bool { return x % 2 == 0 })"
				}
			}
		case 3:
			if t.Elem.K == KString {
				g.feat("string_split")
				return g.strExpr(depth+1) + ".split(separator: \" \")"
			}
		}
		return g.lit(t, depth)
	case KStruct:
		if r.IntN(3) == 0 {
			// copy of an element in an array of that struct
			for _, v := range g.varsOf(func(v *Var) bool { return v.T.K == KArr && v.T.Elem.Eq(t) }) {
				g.feat("array_index")
				return "(" + v.Name + ".length > 0 ? " + v.Name + "[clampIdx(" + g.numExpr(TInt, depth+1) + ", " + v.Name + ".length)] : " + g.lit(t, depth+1) + ")"
			}
		}
		return g.lit(t, depth)
	}
	return g.lit(t, depth)
}

// edgyNum: operations that legitimately fail at run time with user errors (overflow, nil force
// unwrap, out-of-bounds index, failed force cast, division by zero).
func (g *Gen) edgyNum(t *Type, depth int) string {
	r := g.R
	switch r.IntN(6) {
	case 0:
		g.feat("edgy_force_unwrap")
		return "(" + g.expr(Opt(t), depth+1) + ")!"
	case 1:
		if t.Name == "Int" {
			for _, v := range g.varsOf(func(v *Var) bool { return v.T.K == KArr && v.T.Elem.Eq(TInt) }) {
				g.feat("edgy_index")
				return v.Name + "[" + fmt.Sprint(r.IntN(4)) + "]"
			}
		}
	case 2:
		if t.Name == "Int8" || t.Name == "UInt8" || t.Name == "Int64" || t.Name == "UInt64" {
			g.feat("edgy_overflow")
			return "(" + g.expr(t, depth+1) + " " + pick(r, []string{"*", "+", "-"}) + " " + g.expr(t, depth+1) + ")"
		}
	case 3:
		g.feat("edgy_force_cast")
		src := pick(r, []*Type{t, t, TString, TBool})
		return "(" + g.anyOf(src, depth+1) + " as! " + t.Src() + ")"
	case 4:
		if t.Name == "Int" {
			g.feat("edgy_division")
			return "(" + g.expr(t, depth+1) + " / (" + g.expr(t, depth+1) + " % 3))"
		}
	case 5:
		if t.Name != "Int" && !isFixed(t) {
			g.feat("edgy_conversion")
			return t.Name + "(" + g.expr(TInt, depth+1) + ")"
		}
	}
	return g.lit(t, depth)
}

func (g *Gen) numExpr(t *Type, depth int) string {
	r := g.R
	if depth > 3 {
		return g.lit(t, depth)
	}
	if g.Edgy && r.IntN(10) == 0 {
		return g.edgyNum(t, depth)
	}
	isInt := t.Name == "Int"
	switch r.IntN(12) {
	case 0, 1:
		op := pick(r, []string{"+", "-", "*"})
		if !isInt {
			if isFixed(t) || t.Name == "Word16" {
				op = "+"
				return "(" + g.lit(t, depth+1) + " " + op + " " + g.lit(t, depth+1) + ")"
			}
			// keep sized types away from their limits most of the time
			g.feat("saturating")
			return g.expr(t, depth+1) + "." + pick(r, []string{"saturatingAdd", "saturatingSubtract", "saturatingMultiply"}) + "(" + g.lit(t, depth+1) + ")"
		}
		g.feat("arith")
		return "(" + g.expr(t, depth+1) + " " + op + " " + g.expr(t, depth+1) + ")"
	case 2:
		if isInt {
			g.feat("arith_divmod")
			return "(" + g.expr(t, depth+1) + " " + pick(r, []string{"/", "%"}) + " " + fmt.Sprint(1+r.IntN(7)) + ")"
		}
	case 3:
		g.feat("conditional")
		return "(" + g.boolExpr(depth+1) + " ? " + g.expr(t, depth+1) + " : " + g.expr(t, depth+1) + ")"
	case 4:
		g.feat("nil_coalescing")
		return "(" + g.expr(Opt(t), depth+1) + " ?? " + g.lit(t, depth+1) + ")"
	case 5:
		if isInt {
			// lengths and calls
			switch r.IntN(6) {
			case 0:
				g.feat("string_length")
				return g.strExpr(depth+1) + ".length"
			case 1:
				g.feat("call_rec")
				return "rec(" + fmt.Sprint(r.IntN(6)) + ")"
			case 2:
				for _, v := range g.varsOf(func(v *Var) bool { return v.T.K == KArr && !v.T.IsResource() }) {
					g.feat("array_length")
					return v.Name + ".length"
				}
			case 3:
				for _, v := range g.varsOf(func(v *Var) bool { return v.T.K == KStruct }) {
					g.feat("method_call")
					return v.Name + "." + pick(r, []string{"getA()", "bump(" + fmt.Sprint(r.IntN(5)) + ")", "mk()(" + fmt.Sprint(r.IntN(5)) + ")"})
				}
			case 4:
				g.feat("closure_call")
				return "adder(" + fmt.Sprint(r.IntN(9)) + ")(" + g.expr(TInt, depth+1) + ")"
			case 5:
				for _, v := range g.varsOf(func(v *Var) bool { return v.T.K == KStruct && v.T.Name == "S0" }) {
					g.feat("iface_call")
					return "viaIface(" + v.Name + ")"
				}
			}
		}
	case 6:
		if isInt {
			// conversions
			g.feat("conversion")
			src := pick(r, []*Type{TUInt8, TInt64, TWord16})
			return "Int(" + g.expr(src, depth+1) + ")"
		}
		if t.Name == "Int64" || t.Name == "UInt64" || t.Name == "UInt128" {
			g.feat("conversion")
			return t.Name + "(" + g.lit(TUInt8, depth+1) + ")"
		}
	case 7:
		if isInt {
			for _, v := range g.varsOf(func(v *Var) bool { return v.T.K == KArr && v.T.Elem.Eq(TInt) }) {
				g.feat("array_index")
				return "(" + v.Name + ".length > 0 ? " + v.Name + "[clampIdx(" + g.expr(TInt, depth+1) + ", " + v.Name + ".length)] : 0)"
			}
		}
	case 8:
		if isInt {
			g.feat("force_unwrap")
			return "(" + g.lit(TInt, depth+1) + " as Int?)!"
		}
		if t.Name == "Word16" || t.Name == "UInt8" || t.Name == "UInt64" {
			g.feat("bitwise")
			return "(" + g.lit(t, depth+1) + " " + pick(r, []string{"&", "|", "^"}) + " " + g.lit(t, depth+1) + ")"
		}
	case 9:
		if isInt {
			for _, v := range g.varsOf(func(v *Var) bool { return v.T.K == KRes && v.Owned }) {
				g.feat("resource_member")
				if v.T.Name == "R0" {
					return v.Name + "." + pick(r, []string{"n", "id", "peek()", "inc()", "rsig()"})
				}
				return v.Name + "." + pick(r, []string{"n", "id", "kidCount()", "kidSum()", "rsig()", "rdflt(4)"})
			}
		}
	}
	if vs := g.valVars(t); len(vs) > 0 && r.IntN(2) == 0 {
		return pick(r, vs).Name
	}
	return g.lit(t, depth)
}

func (g *Gen) boolExpr(depth int) string {
	r := g.R
	if depth > 3 {
		return g.lit(TBool, depth)
	}
	switch r.IntN(8) {
	case 0, 1:
		t := pick(r, []*Type{TInt, TInt, TUInt8, TString, TUFix64})
		op := pick(r, []string{"==", "!=", "<", "<=", ">", ">="})
		g.feat("comparison")
		return "(" + g.expr(t, depth+1) + " " + op + " " + g.expr(t, depth+1) + ")"
	case 2:
		g.feat("logical")
		return "(" + g.boolExpr(depth+1) + " " + pick(r, []string{"&&", "||"}) + " " + g.boolExpr(depth+1) + ")"
	case 3:
		g.feat("logical")
		return "!" + g.boolExpr(depth+1)
	case 4:
		g.feat("is_instance")
		t := pick(r, []*Type{TInt, TString, TBool, Opt(TInt)})
		u := pick(r, []*Type{TInt, TString, TBool})
		return g.anyOf(t, depth+1) + ".isInstance(Type<" + u.Src() + ">())"
	case 5:
		g.feat("optional_nil_test")
		t := pick(r, []*Type{TInt, TString})
		return "(" + g.expr(Opt(t), depth+1) + " == nil)"
	case 6:
		for _, v := range g.varsOf(func(v *Var) bool { return v.T.K == KArr && v.T.Elem.Eq(TInt) }) {
			g.feat("array_contains")
			return v.Name + ".contains(" + g.expr(TInt, depth+1) + ")"
		}
		for _, v := range g.varsOf(func(v *Var) bool { return v.T.K == KDict && !v.T.IsResource() }) {
			g.feat("dict_contains")
			return v.Name + ".containsKey(" + g.expr(v.T.Key, depth+1) + ")"
		}
	}
	if vs := g.valVars(TBool); len(vs) > 0 && r.IntN(2) == 0 {
		return pick(r, vs).Name
	}
	return g.lit(TBool, depth)
}

func (g *Gen) strExpr(depth int) string {
	r := g.R
	if depth > 3 {
		return g.lit(TString, depth)
	}
	switch r.IntN(9) {
	case 0:
		g.feat("string_concat")
		return g.strExpr(depth+1) + ".concat(" + g.strExpr(depth+1) + ")"
	case 1:
		g.feat("to_string")
		t := pick(r, []*Type{TInt, TUInt8, TUFix64, TInt64, TAddress, TBool})
		if t.K == KBool {
			return "(" + g.boolExpr(depth+1) + " ? \"t\" : \"f\")"
		}
		return "(" + g.expr(t, depth+1) + ").toString()"
	case 2:
		g.feat("string_template")
		return "\"a\\(" + g.simpleInt() + ")b\\(" + g.simpleStr() + ")\""
	case 3:
		g.feat("string_lower")
		return g.strExpr(depth+1) + ".toLower()"
	case 4:
		g.feat("type_identifier")
		t := pick(r, []*Type{TInt, TString, g.W.Structs[0].T, Arr(TInt), Opt(TBool)})
		return g.anyOf(t, depth+1) + ".getType().identifier"
	case 5:
		g.feat("string_slice")
		s := g.strExpr(depth + 1)
		v := g.fresh("zs")
		_ = v
		return "(" + s + ").slice(from: 0, upTo: 0)"
	case 6:
		g.feat("string_join")
		return "String.join(" + g.expr(Arr(TString), depth+1) + ", separator: \"-\")"
	}
	if vs := g.valVars(TString); len(vs) > 0 && r.IntN(2) == 0 {
		return pick(r, vs).Name
	}
	return g.lit(TString, depth)
}

// simpleInt / simpleStr: template arguments without string literals (no nested templates, no quotes).
func (g *Gen) simpleInt() string {
	if vs := g.valVars(TInt); len(vs) > 0 && g.R.IntN(2) == 0 {
		return pick(g.R, vs).Name
	}
	return fmt.Sprintf("%d + rec(%d)", g.R.IntN(30), g.R.IntN(4))
}

func (g *Gen) simpleStr() string {
	if vs := g.valVars(TString); len(vs) > 0 {
		return pick(g.R, vs).Name
	}
	return fmt.Sprintf("(%d).toString()", g.R.IntN(30))
}

// ---------------------------------------------------------------- statements

func (g *Gen) declTypes() []*Type {
	ts := []*Type{TInt, TInt, TInt, TString, TBool, TUInt8, TInt8, TInt64, TUInt64, TUFix64, TFix64, TWord16, TUInt128, TAddress,
		Opt(TInt), Opt(TString), Arr(TInt), Arr(TInt), Arr(TString), Dict(TString, TInt), Dict(TInt, TString), g.W.EnumType, TAny}
	for _, s := range g.W.Structs {
		ts = append(ts, s.T, s.T, Opt(s.T), Arr(s.T), Dict(TString, s.T))
	}
	return ts
}

func (g *Gen) open(format string, a ...any) {
	g.line(format, a...)
	g.ind++
	g.depth++
}

func (g *Gen) close() {
	// drain resources declared in this scope
	g.drain(g.depth)
	// drop variables of this scope
	n := 0
	for _, v := range g.vars {
		if v.Depth < g.depth {
			g.vars[n] = v
			n++
		}
	}
	g.vars = g.vars[:n]
	g.depth--
	g.ind--
	g.line("}")
}

// drain consumes every still-owned resource declared at the given depth.
func (g *Gen) drain(depth int) {
	for _, v := range g.vars {
		if v.Depth == depth && v.T.IsResource() && v.Owned {
			g.consume(v)
		}
	}
}

// consume moves or destroys an owned resource variable.
func (g *Gen) consume(v *Var) {
	r := g.R
	v.Owned = false
	if v.T.K == KRes && v.T.Name == "R0" {
		switch r.IntN(6) {
		case 0:
			g.feat("res_pass_to_function")
			g.line("log(eat(<-%s))", v.Name)
			return
		case 1:
			// move into an owned R1 declared at the same depth or outer (only at the same depth to keep linearity simple)
			for _, o := range g.vars {
				if o != v && o.T.K == KRes && o.T.Name == "R1" && o.Owned && o.Depth == v.Depth {
					g.feat("res_move_into_nested")
					switch r.IntN(3) {
					case 0:
						g.line("%s.putKid(<-%s)", o.Name, v.Name)
					case 1:
						g.line("%s.setChild(<-%s)", o.Name, v.Name)
					default:
						g.line("%s.putBag(\"b%d\", <-%s)", o.Name, r.IntN(3), v.Name)
					}
					return
				}
			}
		case 2:
			for _, o := range g.vars {
				if o != v && o.T.K == KArr && o.T.IsResource() && o.Owned && o.Depth == v.Depth {
					g.feat("res_move_into_array")
					g.line("%s.append(<-%s)", o.Name, v.Name)
					return
				}
			}
		case 3:
			for _, o := range g.vars {
				if o != v && o.T.K == KDict && o.T.IsResource() && o.Owned && o.Depth == v.Depth {
					g.feat("res_move_into_dict")
					old := g.fresh("old")
					g.line("let %s <- %s.insert(key: \"d%d\", <-%s)", old, o.Name, r.IntN(3), v.Name)
					g.line("destroy %s", old)
					return
				}
			}
		case 4:
			if g.Tx && g.inLoop == 0 {
				g.feat("storage_save_resource")
				p := fmt.Sprintf("/storage/r%d", r.IntN(4))
				g.line("if acct.storage.type(at: %s) == nil {", p)
				g.line("    acct.storage.save(<-%s, to: %s)", v.Name, p)
				g.line("} else {")
				g.line("    destroy %s", v.Name)
				g.line("}")
				return
			}
		}
	}
	if v.T.K == KRes && v.T.Name == "R1" && g.Tx && g.inLoop == 0 && r.IntN(3) == 0 {
		g.feat("storage_save_resource")
		p := fmt.Sprintf("/storage/s%d", r.IntN(3))
		g.line("if acct.storage.type(at: %s) == nil {", p)
		g.line("    acct.storage.save(<-%s, to: %s)", v.Name, p)
		g.line("} else {")
		g.line("    destroy %s", v.Name)
		g.line("}")
		return
	}
	g.feat("res_destroy")
	g.line("destroy %s", v.Name)
}

func (g *Gen) resExpr(t *Type) string {
	r := g.R
	switch t.K {
	case KRes:
		if t.Name == "AnyResource" {
			g.feat("res_anyresource_container")
			return "<- make(" + fmt.Sprint(r.IntN(50)) + ")"
		}
		if t.Name == "R0" {
			if g.Tx || r.IntN(2) == 0 {
				return "<- make(" + fmt.Sprint(r.IntN(50)) + ")"
			}
			return "<- create R0(id: " + fmt.Sprint(r.IntN(50)) + ")"
		}
		return "<- make1(" + fmt.Sprint(r.IntN(50)) + ")"
	case KOpt:
		if r.IntN(3) == 0 {
			return "<- nil"
		}
		return g.resExpr(t.Elem)
	case KArr:
		n := r.IntN(3)
		var es []string
		for i := 0; i < n; i++ {
			es = append(es, g.resExpr(t.Elem))
		}
		return "<- [" + strings.Join(es, ", ") + "]"
	case KDict:
		n := r.IntN(3)
		var es []string
		for i := 0; i < n; i++ {
			es = append(es, fmt.Sprintf("\"d%d\": %s", i, g.resExpr(t.Elem)))
		}
		return "<- {" + strings.Join(es, ", ") + "}"
	}
	panic("resExpr")
}

func (g *Gen) resTypes() []*Type {
	r0, r1 := g.W.Resources[0].T, g.W.Resources[1].T
	anyRes := &Type{K: KRes, Name: "AnyResource"}
	return []*Type{r0, r0, r0, r1, r1, Opt(r0), Arr(r0), Dict(TString, r0), Arr(anyRes), Dict(TString, anyRes), Dict(TString, r0)}
}

// stmt emits one statement.
func (g *Gen) stmt() {
	r := g.R
	g.budget = 12
	k := r.IntN(114)
	switch {
	case k < 18:
		// value declaration
		t := pick(r, g.declTypes())
		name := g.fresh("v")
		kw := "let"
		mut := r.IntN(2) == 0
		if mut {
			kw = "var"
		}
		g.line("%s %s: %s = %s", kw, name, t.Src(), g.expr(t, 0))
		g.declare(name, t, mut)
		g.feat("decl")
		if r.IntN(3) == 0 && t.K != KAnyStruct {
			g.obs = append(g.obs, name)
		}
	case k < 26:
		// assignment to a mutable variable
		vs := g.varsOf(func(v *Var) bool { return v.Mutable && !v.T.IsResource() && v.T.K != KRef })
		if len(vs) == 0 {
			g.line("log(%s)", g.typed(TInt, 0))
			return
		}
		v := pick(r, vs)
		g.feat("assign")
		g.line("%s = %s", v.Name, g.expr(v.T, 0))
	case k < 32:
		// field / element mutation
		g.mutation()
	case k < 38:
		g.line("log(%s)", g.typed(pick(r, []*Type{TInt, TString, TBool, TUFix64, Opt(TInt), Arr(TInt), g.W.Structs[0].T, g.W.EnumType}), 0))
		g.feat("log")
	case k < 44:
		// if / else
		if g.depth > 3 {
			return
		}
		g.feat("if")
		g.open("if %s {", g.boolExpr(0))
		g.block(1 + r.IntN(2))
		if r.IntN(2) == 0 {
			g.closeElse()
			g.block(1 + r.IntN(2))
		}
		g.close()
	case k < 48:
		// if let
		if g.depth > 3 {
			return
		}
		g.feat("if_let")
		t := pick(r, []*Type{TInt, TString, g.W.Structs[0].T})
		name := g.fresh("u")
		g.open("if let %s = %s {", name, g.expr(Opt(t), 0))
		g.declare(name, t, false)
		g.block(1 + r.IntN(2))
		g.close()
	case k < 53:
		// bounded while
		if g.depth > 2 {
			return
		}
		g.feat("while")
		i := g.fresh("i")
		g.line("var %s = 0", i)
		g.open("while %s < %d {", i, 1+r.IntN(4))
		g.inLoop++
		g.line("%s = %s + 1", i, i)
		if r.IntN(3) == 0 {
			g.line("if %s { continue }", g.boolExpr(2))
			g.feat("continue")
		}
		if r.IntN(3) == 0 {
			g.line("if %s { break }", g.boolExpr(2))
			g.feat("break")
		}
		g.block(1 + r.IntN(2))
		g.inLoop--
		g.close()
	case k < 59:
		// for-in
		if g.depth > 2 {
			return
		}
		g.forIn()
	case k < 62:
		// switch
		if g.depth > 2 {
			return
		}
		g.feat("switch")
		g.open("switch %s %% 3 {", g.expr(TInt, 1))
		for c := 0; c < 2; c++ {
			g.ind--
			g.line("case %d:", c)
			g.ind++
			g.line("log(%s)", g.typed(TInt, 1))
		}
		g.ind--
		g.line("default:")
		g.ind++
		g.line("log(%s)", g.typed(TString, 1))
		g.close()
	case k < 66:
		// emit
		e := pick(r, g.W.Events)
		var as []string
		for _, p := range e.Params {
			as = append(as, p.Name+": "+g.expr(p.T, 1))
		}
		g.feat("emit")
		if g.Tx {
			// transactions cannot emit imported events directly: go through a contract function
			g.line("fire(%s, %s)", g.typed(TInt, 1), g.typed(TString, 1))
		} else {
			g.line("emit %s(%s)", e.Name, strings.Join(as, ", "))
		}
	case k < 72:
		// references to structs and containers
		g.refStmt()
	case k < 76:
		// closures capturing variables
		g.feat("closure")
		f := g.fresh("fn")
		cap := "0"
		if vs := g.valVars(TInt); len(vs) > 0 {
			cap = pick(r, vs).Name
		}
		g.line("let %s = fun (x: Int): Int { return x + %s }", f, cap)
		g.line("log(%s(%s))", f, g.expr(TInt, 1))
		if vs := g.varsOf(func(v *Var) bool { return v.T.K == KStruct }); len(vs) > 0 && r.IntN(2) == 0 {
			// closure that captured `self` inside a method and escaped it
			g.feat("closure_escaping_self")
			m := g.fresh("mk")
			g.line("let %s = %s.mk()", m, pick(r, vs).Name)
			g.line("log(%s(%d))", m, r.IntN(9))
		}
	case k < 80:
		// casts through AnyStruct
		g.feat("cast")
		t := pick(r, []*Type{TInt, TString, g.W.Structs[0].T, Arr(TInt), Opt(TInt)})
		a := g.fresh("any")
		g.line("let %s: AnyStruct = %s", a, g.typed(t, 1))
		u := pick(r, []*Type{t, TInt, TString})
		g.line("log(%s as? %s)", a, u.Src())
		if u.Eq(t) && r.IntN(2) == 0 {
			g.line("log(%s as! %s)", a, u.Src())
			g.feat("cast_force")
		}
	case k < 84:
		// attachment use
		if g.W.Attachment != "" {
			g.feat("attachment")
			s := g.fresh("at")
			g.line("let %s = attach A0(k: %d) to %s", s, r.IntN(9), g.lit(g.W.Structs[0].T, 1))
			g.line("log(%s[A0]?.sum())", s)
			if r.IntN(2) == 0 {
				s2 := g.fresh("at")
				g.line("var %s = %s", s2, s)
				g.line("remove A0 from %s", s2)
				g.line("log(%s[A0] == nil)", s2)
			}
		}
	case k < 94:
		// resource declaration
		t := pick(r, g.resTypes())
		name := g.fresh("q")
		kw := "let"
		mut := r.IntN(2) == 0
		if mut {
			kw = "var"
		}
		g.line("%s %s: %s %s", kw, name, t.Src(), g.resExpr(t))
		g.declare(name, t, mut)
		g.feat("res_decl")
		if t.K == KRes {
			g.line("log(%s.uuid > 0)", name)
		}
	case k < 98:
		g.resourceOp()
	case k < 101:
		if g.Tx && g.inLoop == 0 {
			g.storageOp()
		}
	default:
		g.extraStmt()
	}
}

// extraStmt: less common language features (resource casts through AnyResource, resource
// attachments, nested functions, enum switches, type values, wider numeric types, string and
// container built-ins, interface-typed values).
func (g *Gen) extraStmt() {
	r := g.R
	sel := r.IntN(31)
	if sel >= 17 {
		sel -= 17 // cases 0..13 twice as likely as cases 14..16
	}
	if sel == 14 && r.IntN(5) != 0 {
		sel = 13 // keep the (known-defective) field-element swap rare: it aborts the program on I
	}
	switch sel {
	case 0:
		// resource cast through AnyResource
		g.feat("res_cast_anyresource")
		a, b := g.fresh("q"), g.fresh("q")
		g.line("let %s: @AnyResource <- make(%d)", a, r.IntN(30))
		if r.IntN(2) == 0 {
			g.line("let %s <- %s as! @R0", b, a)
			g.declare(b, g.W.Resources[0].T, false)
		} else {
			tgt := pick(r, []string{"R0", "R1"})
			g.line("if let %s <- %s as? @%s {", b, a, tgt)
			g.line("    log(%s.id)", b)
			g.line("    destroy %s", b)
			g.line("} else {")
			g.line("    destroy %s", a)
			g.line("}")
		}
	case 1:
		// resource attachment
		g.feat("res_attachment")
		a, b := g.fresh("q"), g.fresh("q")
		g.line("let %s <- make(%d)", a, r.IntN(30))
		g.line("let %s <- attach RA0(w: %d) to <-%s", b, r.IntN(9), a)
		g.line("log(%s[RA0]?.total())", b)
		g.declare(b, g.W.Resources[0].T, false)
		if r.IntN(2) == 0 {
			g.line("remove RA0 from %s", b)
			g.line("log(%s[RA0] == nil)", b)
		}
	case 2:
		// nested function
		g.feat("nested_function")
		f := g.fresh("nf")
		g.line("fun %s(_ a: Int, _ b: Int): Int {", f)
		g.line("    if a > b { return a - b }")
		g.line("    return %s", pick(r, []string{"a + b", "rec(2) + a", "b * 2"}))
		g.line("}")
		g.line("log(%s(%s, %s))", f, g.typed(TInt, 1), g.typed(TInt, 1))
	case 3:
		// enum switch and raw values
		g.feat("enum_switch")
		e := g.fresh("e")
		g.line("let %s = %s", e, g.lit(g.W.EnumType, 1))
		g.line("switch %s {", e)
		g.line("case Color.red: log(\"r\")")
		g.line("case Color.green: log(%s.rawValue)", e)
		g.line("default: log(Color(rawValue: %d)?.rawValue)", r.IntN(5))
		g.line("}")
	case 4:
		// type values
		g.feat("type_values")
		t := pick(r, []string{"Int", "String", "[Int]", "{String: Int}", "S0", "@R0", "&S0", "auth(E0) &S0", "{SI0}", "Int?", "Color"})
		u := pick(r, []string{"AnyStruct", "Int", "@AnyResource", "{SI0}", "&S0", "S0", "Integer", "Number"})
		g.line("log(Type<%s>().isSubtype(of: Type<%s>()))", t, u)
		g.line("log(Type<%s>().identifier)", t)
		if r.IntN(2) == 0 {
			g.line("log(OptionalType(Type<%s>()) == Type<%s?>())", pick(r, []string{"Int", "String", "S0"}), pick(r, []string{"Int", "String", "S0"}))
		}
	case 5:
		// wide numeric types
		g.feat("wide_numeric")
		t := pick(r, []string{"Int128", "UInt256", "Int256", "UInt128", "Word64", "Word128", "UInt64", "Int32", "UInt16"})
		a, b := 1+r.IntN(1000), 1+r.IntN(1000)
		op := pick(r, []string{"+", "*", "/", "%", "&", "|", "^"})
		g.line("log((%d as %s) %s (%d as %s))", a, t, op, b, t)
		if r.IntN(2) == 0 {
			g.line("log(((%d as %s) << %d) >> %d)", a, t, r.IntN(9), r.IntN(9))
		}
		if r.IntN(3) == 0 {
			g.line("log(%s.fromString(\"%d\"))", t, a)
			g.line("log((%d as %s).toBigEndianBytes())", a, t)
		}
	case 6:
		// fixed point
		g.feat("fixed_point")
		t := pick(r, []string{"UFix64", "Fix64", "UFix128", "Fix128"})
		op := pick(r, []string{"+", "*", "/"})
		g.line("log((%d.%d as %s) %s (%d.%d as %s))", r.IntN(90), r.IntN(100), t, op, 1+r.IntN(9), r.IntN(100), t)
	case 7:
		// string built-ins
		g.feat("string_builtins")
		s := g.fresh("s")
		g.line("let %s: String = %s", s, g.typed(TString, 1))
		switch r.IntN(6) {
		case 0:
			g.line("log(%s.utf8)", s)
		case 1:
			g.line("log(%s.contains(\"a\"))", s)
			g.line("log(%s.index(of: \"b\"))", s)
		case 2:
			g.line("log(%s.replaceAll(of: \"a\", with: \"zz\"))", s)
		case 3:
			g.line("log(%s.count(\"a\"))", s)
		case 4:
			g.line("if %s.length > 1 { log(%s.slice(from: 1, upTo: %s.length)) }", s, s, s)
			g.line("if %s.length > 0 { log(%s[0]) }", s, s)
		default:
			g.line("log(String.encodeHex(%s.utf8))", s)
			g.line("log(String.fromUTF8(%s.utf8))", s)
		}
	case 8:
		// container built-ins
		g.feat("container_builtins")
		a := g.fresh("xs")
		g.line("var %s: [Int] = %s", a, g.lit(Arr(TInt), 1))
		g.declare(a, Arr(TInt), true)
		switch r.IntN(6) {
		case 0:
			g.line("log(%s.reverse())", a)
		case 1:
			g.line("log(%s.firstIndex(of: %d))", a, r.IntN(9))
		case 2:
			g.line("if %s.length > 0 { log(%s.removeFirst()) }", a, a)
		case 3:
			g.line("log(%s.toConstantSized<[Int; 2]>())", a)
		case 4:
			g.line("log(%s.concat([1, 2]).slice(from: 0, upTo: 1))", a)
		default:
			g.line("log(%s.map(fun (x: Int): String { return x.toString() }))", a)
		}
	case 9:
		// dictionary built-ins
		g.feat("dict_builtins")
		d := g.fresh("dd")
		g.line("var %s: {String: Int} = %s", d, g.lit(Dict(TString, TInt), 1))
		g.declare(d, Dict(TString, TInt), true)
		g.line("%s.forEachKey(fun (k: String): Bool {", d)
		g.line("    log(k)")
		g.line("    return %s", pick(r, []string{"true", "false", "k.length > 1"}))
		g.line("})")
		g.line("log(%s.keys.length == %s.values.length)", d, d)
	case 10:
		// interface-typed values
		g.feat("interface_typed_value")
		i := g.fresh("iv")
		g.line("let %s: {SI0} = %s", i, g.lit(g.W.Structs[0].T, 1))
		g.line("log(%s.sig0(%s) + %s.dflt())", i, g.typed(TInt, 2), i)
		if r.IntN(2) == 0 {
			g.line("log((%s as? S0)?.a)", i)
		}
	case 11:
		// resource created in a loop
		if g.depth > 2 {
			return
		}
		g.feat("res_in_loop")
		i, q := g.fresh("i"), g.fresh("q")
		g.line("var %s = 0", i)
		g.line("while %s < %d {", i, 1+r.IntN(3))
		g.line("    %s = %s + 1", i, i)
		g.line("    let %s <- make(%s)", q, i)
		g.line("    log(%s.inc())", q)
		g.line("    destroy %s", q)
		g.line("}")
	case 15, 16:
		// constants converted to optional / container element types inside a function expression
		g.feat("closure_optional_constants")
		f := g.fresh("cf")
		k := r.IntN(50)
		g.line("let %s = fun (): [AnyStruct] {", f)
		g.line("    let s: Int? = %d", k)
		g.line("    let d: {String: UInt8?} = {\"k\": %d, \"n\": nil}", r.IntN(200))
		g.line("    let a: [String?] = [\"a\", nil]")
		g.line("    let u: UFix64? = %d.5", r.IntN(9))
		g.line("    let m = s.map(fun (x: Int): Int { return x + 1 })")
		g.line("    return [s, m, d[\"k\"], d[\"n\"], a[0], a[1], a.length, u, d.length]")
		g.line("}")
		g.line("log(%s())", f)
		if g.Tx && g.inLoop == 0 {
			p := fmt.Sprintf("/storage/c%d", r.IntN(3))
			g.line("let b%s = fun (): {String: UInt8?} { return {\"k\": %d, \"z\": nil} }", f, r.IntN(200))
			g.line("if acct.storage.type(at: %s) == nil { acct.storage.save(b%s(), to: %s) }", p, f, p)
			g.line("let l%s = fun (): [String?] { return [\"a\", nil, \"%d\"] }", f, k)
			g.line("if acct.storage.type(at: /storage/l0) == nil { acct.storage.save(l%s(), to: /storage/l0) }", f)
		}
	case 14:
		// swap with an element of a resource-typed field container
		g.feat("res_swap_field_element")
		q, t := g.fresh("q"), g.fresh("q")
		g.line("let %s <- make1(%d)", q, r.IntN(30))
		g.line("var %s <- make(%d)", t, r.IntN(30))
		g.line("%s.kids[0] <-> %s", q, t)
		g.line("log(%s.n)", t)
		g.declare(q, g.W.Resources[1].T, false)
		g.declare(t, g.W.Resources[0].T, true)
	case 12:
		// references to optionals and nested access on resources
		g.feat("res_optional_ref")
		q := g.fresh("q")
		g.line("let %s <- make1(%d)", q, r.IntN(30))
		g.line("%s.setChild(<- make(%d))", q, r.IntN(30))
		g.line("let cr%d = &%s.child as &R0?", g.next, q)
		g.line("log(cr%d?.n)", g.next)
		g.line("log(%s.kids[0].peek())", q)
		g.declare(q, g.W.Resources[1].T, false)
	case 13:
		// view function call and conditions via interface default
		g.feat("res_iface_default")
		q := g.fresh("q")
		g.line("let %s <- make(%d)", q, r.IntN(30))
		g.line("log(%s.rdflt(%d) + %s.rsig())", q, r.IntN(50), q)
		g.declare(q, g.W.Resources[0].T, false)
	}
}

func (g *Gen) closeElse() {
	g.drain(g.depth)
	n := 0
	for _, v := range g.vars {
		if v.Depth < g.depth {
			g.vars[n] = v
			n++
		}
	}
	g.vars = g.vars[:n]
	g.ind--
	g.line("} else {")
	g.ind++
}

func (g *Gen) block(n int) {
	for i := 0; i < n; i++ {
		g.stmt()
	}
}

func (g *Gen) mutation() {
	r := g.R
	vs := g.varsOf(func(v *Var) bool {
		return v.Mutable && (v.T.K == KStruct || (v.T.K == KArr && !v.T.IsResource()) || (v.T.K == KDict && !v.T.IsResource()))
	})
	if len(vs) == 0 {
		return
	}
	v := pick(r, vs)
	switch v.T.K {
	case KStruct:
		g.feat("member_write_via_method")
		g.line("log(%s.bump(%s))", v.Name, g.expr(TInt, 2))
	case KArr:
		g.feat("array_mutation")
		switch r.IntN(5) {
		case 0:
			g.line("%s.append(%s)", v.Name, g.expr(v.T.Elem, 1))
		case 1:
			g.line("%s.insert(at: 0, %s)", v.Name, g.expr(v.T.Elem, 1))
		case 2:
			g.line("if %s.length > 0 { let %s = %s.removeLast() }", v.Name, g.fresh("d"), v.Name)
		case 3:
			g.line("if %s.length > 0 { %s[clampIdx(%s, %s.length)] = %s }", v.Name, v.Name, g.expr(TInt, 2), v.Name, g.expr(v.T.Elem, 1))
		default:
			g.line("%s.appendAll(%s)", v.Name, g.lit(v.T, 2))
		}
	case KDict:
		g.feat("dict_mutation")
		switch r.IntN(3) {
		case 0:
			g.line("%s[%s] = %s", v.Name, g.expr(v.T.Key, 1), g.expr(v.T.Elem, 1))
		case 1:
			g.line("let %s = %s.remove(key: %s)", g.fresh("d"), v.Name, g.expr(v.T.Key, 1))
		default:
			g.line("let %s = %s.insert(key: %s, %s)", g.fresh("d"), v.Name, g.expr(v.T.Key, 1), g.expr(v.T.Elem, 1))
		}
	}
}

func (g *Gen) forIn() {
	r := g.R
	x := g.fresh("x")
	switch r.IntN(5) {
	case 0:
		g.feat("for_range")
		g.open("for %s in InclusiveRange(0, %d) {", x, r.IntN(4))
		g.declare(x, TInt, false)
	case 1:
		g.feat("for_string")
		g.open("for %s in %s {", x, g.strExpr(1))
		g.declare(x, TChar, false)
	case 2:
		vs := g.varsOf(func(v *Var) bool { return v.T.K == KDict && !v.T.IsResource() })
		if len(vs) == 0 {
			return
		}
		v := pick(r, vs)
		g.feat("for_dict_keys")
		g.open("for %s in %s.keys {", x, v.Name)
		g.declare(x, v.T.Key, false)
	default:
		vs := g.varsOf(func(v *Var) bool { return v.T.K == KArr && !v.T.IsResource() })
		if len(vs) == 0 {
			g.feat("for_array")
			g.open("for %s in %s {", x, g.lit(Arr(TInt), 1))
			g.declare(x, TInt, false)
		} else {
			v := pick(r, vs)
			g.feat("for_array")
			g.open("for %s in %s {", x, v.Name)
			g.declare(x, v.T.Elem, false)
		}
	}
	g.inLoop++
	g.block(1 + r.IntN(2))
	g.inLoop--
	g.close()
}

func (g *Gen) refStmt() {
	r := g.R
	switch r.IntN(5) {
	case 0, 1:
		vs := g.varsOf(func(v *Var) bool { return v.T.K == KStruct })
		if len(vs) == 0 {
			return
		}
		v := pick(r, vs)
		ref := g.fresh("ref")
		if v.T.Name == "S0" && r.IntN(2) == 0 {
			g.feat("ref_authorized")
			g.line("let %s = &%s as auth(E0) &S0", ref, v.Name)
			g.line("log(viaAuth(%s))", ref)
			if r.IntN(2) == 0 {
				g.feat("ref_upcast")
				g.line("log(viaRef(%s))", ref)
			}
			if r.IntN(2) == 0 {
				g.line("log(%s.guarded())", ref)
			}
		} else {
			g.feat("ref_struct")
			g.line("let %s = &%s as &%s", ref, v.Name, v.T.Name)
			g.line("log(%s.a + %s.getA())", ref, ref)
			if v.T.Name == "S0" {
				g.line("log(viaRef(%s))", ref)
			}
		}
	case 2:
		vs := g.varsOf(func(v *Var) bool { return v.T.K == KArr && v.T.Elem.Eq(TInt) && v.Mutable })
		if len(vs) == 0 {
			return
		}
		v := pick(r, vs)
		ref := g.fresh("ref")
		g.feat("ref_container_mutate")
		g.line("let %s = &%s as auth(Mutate) &[Int]", ref, v.Name)
		g.line("%s.append(%s)", ref, g.expr(TInt, 1))
		g.line("log(%s.length)", ref)
	case 3:
		vs := g.varsOf(func(v *Var) bool { return v.T.K == KRes && v.Owned })
		if len(vs) == 0 {
			return
		}
		v := pick(r, vs)
		ref := g.fresh("ref")
		g.feat("ref_resource")
		if v.T.Name == "R0" && r.IntN(2) == 0 {
			g.line("let %s = &%s as auth(E1) &R0", ref, v.Name)
			g.line("log(%s.locked())", ref)
		} else {
			g.line("let %s = &%s as &%s", ref, v.Name, v.T.Name)
			g.line("log(%s.n)", ref)
		}
		g.line("log(viaRIface(%s))", ref)
	case 4:
		vs := g.varsOf(func(v *Var) bool { return v.T.K == KOpt && v.T.Elem.K == KStruct })
		if len(vs) == 0 {
			return
		}
		v := pick(r, vs)
		ref := g.fresh("ref")
		g.feat("ref_optional")
		g.line("let %s = &%s as &%s?", ref, v.Name, v.T.Elem.Name)
		g.line("log(%s?.a)", ref)
	}
}

// resourceOp: operations on owned resources at the current depth that keep linearity.
func (g *Gen) resourceOp() {
	r := g.R
	own := g.varsOf(func(v *Var) bool { return v.T.IsResource() && v.Owned && v.Depth == g.depth })
	if len(own) == 0 {
		return
	}
	v := pick(r, own)
	switch r.IntN(8) {
	case 0:
		// move to a new variable
		n := g.fresh("q")
		g.feat("res_move_var")
		g.line("let %s <- %s", n, v.Name)
		v.Owned = false
		g.declare(n, v.T, false)
	case 1:
		// swap two mutable owned of the same type
		for _, o := range own {
			if o != v && o.T.Eq(v.T) && o.Mutable && v.Mutable {
				g.feat("res_swap")
				g.line("%s <-> %s", v.Name, o.Name)
				return
			}
		}
		if v.Mutable {
			n := g.fresh("q")
			g.line("var %s: %s %s", n, v.T.Src(), g.resExpr(v.T))
			g.declare(n, v.T, true)
			g.feat("res_swap")
			g.line("%s <-> %s", v.Name, n)
		}
	case 2:
		if v.T.K == KRes && v.T.Name == "R1" {
			g.feat("res_nested_take")
			n := g.fresh("q")
			g.line("let %s <- %s.%s", n, v.Name, pick(r, []string{"takeKid()", "takeChild()", "takeBag(\"b1\")"}))
			g.declare(n, Opt(g.W.Resources[0].T), false)
		}
	case 3:
		if v.T.K == KArr {
			g.feat("res_array_remove")
			n := g.fresh("q")
			g.line("if %s.length > 0 {", v.Name)
			g.line("    let %s <- %s.removeFirst()", n, v.Name)
			g.line("    log(%s)", memberOrType(n, v.T.Elem))
			g.line("    destroy %s", n)
			g.line("}")
		}
	case 4:
		if v.T.K == KDict {
			g.feat("res_dict_remove")
			n := g.fresh("q")
			g.line("let %s <- %s.remove(key: \"d%d\")", n, v.Name, r.IntN(3))
			g.declare(n, Opt(v.T.Elem), false)
		}
	case 5:
		if v.T.K == KOpt {
			g.feat("res_optional_binding")
			n := g.fresh("q")
			v.Owned = false
			g.line("if let %s <- %s {", n, v.Name)
			g.line("    log(%s)", memberOrType(n, v.T.Elem))
			g.line("    destroy %s", n)
			g.line("}")
		}
	case 6:
		if v.T.K == KRes && v.T.Name == "R1" {
			g.feat("res_second_value_assign")
			n := g.fresh("q")
			// second-value assignment into a field is only legal inside the composite: use its method
			g.line("%s.setChild(<- make(%d))", v.Name, r.IntN(30))
			_ = n
		}
	case 7:
		if v.T.K == KArr && v.T.Elem.Name != "AnyResource" {
			g.feat("res_array_index_ref")
			g.line("if %s.length > 0 { log(%s[0].n + %s[%s.length - 1].inc()) }", v.Name, v.Name, v.Name, v.Name)
		}
	}
}

func (g *Gen) storageOp() {
	r := g.R
	switch r.IntN(6) {
	case 0:
		t := pick(r, []*Type{TInt, TString, Arr(TInt), g.W.Structs[0].T, Dict(TString, TInt)})
		p := fmt.Sprintf("/storage/v%d", r.IntN(4))
		g.feat("storage_save_value")
		g.line("if acct.storage.type(at: %s) == nil { acct.storage.save(%s, to: %s) }", p, g.expr(t, 1), p)
	case 1:
		p := fmt.Sprintf("/storage/v%d", r.IntN(4))
		t := pick(r, []*Type{TInt, TString, Arr(TInt), g.W.Structs[0].T, Dict(TString, TInt)})
		g.feat("storage_copy")
		g.line("if acct.storage.check<%s>(from: %s) { log(acct.storage.copy<%s>(from: %s)) }", t.Src(), p, t.Src(), p)
	case 2:
		p := fmt.Sprintf("/storage/r%d", r.IntN(4))
		n := g.fresh("q")
		g.feat("storage_load_resource")
		g.line("if let %s <- acct.storage.load<@R0>(from: %s) {", n, p)
		g.line("    log(%s.inc())", n)
		if r.IntN(2) == 0 {
			g.line("    acct.storage.save(<-%s, to: %s)", n, p)
		} else {
			g.line("    destroy %s", n)
		}
		g.line("}")
	case 3:
		p := fmt.Sprintf("/storage/s%d", r.IntN(3))
		g.feat("storage_borrow")
		g.line("if let b = acct.storage.borrow<&R1>(from: %s) {", p)
		g.line("    log(b.kidCount())")
		if r.IntN(2) == 0 {
			g.line("    b.putKid(<- make(%d))", r.IntN(40))
		} else {
			g.line("    let t <- b.takeKid()")
			g.line("    destroy t")
		}
		g.line("}")
	case 4:
		g.feat("storage_paths")
		g.line("log(acct.storage.storagePaths.length)")
	case 5:
		g.feat("capability")
		p := fmt.Sprintf("/storage/s%d", r.IntN(3))
		g.line("let cap%d = acct.capabilities.storage.issue<&R1>(%s)", g.next, p)
		g.line("log(cap%d.check())", g.next)
		g.line("if let cb = cap%d.borrow() { log(cb.kidCount()) }", g.next)
		g.next++
	}
}

// ---------------------------------------------------------------- whole programs

type Program struct {
	Source   string            // script, or transaction
	Contract string            // contract C0 source (transaction mode)
	Features map[string]int
	Tx       bool
	Signers  int // number of signer accounts (0 = one signer, account 0x1)
}

var qualRe = regexp.MustCompile(`\b(S[0-9]|R[0-9]|SI0|RI0|Color|E[0-9]|Ev[0-9]|A0|RA0|rec|eat|make1|make|viaRef|viaAuth|viaIface|viaRIface|clampIdx|adder|fire)\b`)

// qualify prefixes world names with the contract name in transaction bodies.
func qualify(body string) string {
	return qualRe.ReplaceAllStringFunc(body, func(m string) string { return "C0." + m })
}

// Script generates a script whose declarations are at top level.
func Script(r *R, w *World, nstmts int) *Program {
	g := &Gen{R: r, W: w, Features: map[string]int{}, Edgy: r.IntN(4) == 0}
	w.InContract = false
	g.ind = 1
	g.depth = 1
	for i := 0; i < nstmts; i++ {
		g.stmt()
	}
	g.drain(1)
	var ret []string
	for _, o := range g.obs {
		for _, v := range g.vars {
			if v.Name == o && v.Depth == 1 {
				ret = append(ret, o)
			}
		}
	}
	g.line("return [%s]", strings.Join(ret, ", "))
	src := w.Decls("") + w.Helpers("") + "access(all) fun main(): [AnyStruct] {\n" + g.sb.String() + "}\n"
	return &Program{Source: src, Features: g.Features}
}

// ContractSource renders the world as contract C0.
func ContractSource(w *World) string {
	w.InContract = true
	defer func() { w.InContract = false }()
	return "access(all) contract C0 {\n" + w.Decls("    ") + w.Helpers("    ") + "    init() {}\n}\n"
}

// Transaction generates a transaction over the deployed contract C0 at 0x1.
func Transaction(r *R, w *World, nstmts int) *Program {
	g := &Gen{R: r, W: w, Tx: true, Features: map[string]int{}, Edgy: r.IntN(4) == 0}
	g.ind = 2
	g.depth = 1
	for i := 0; i < nstmts; i++ {
		g.stmt()
	}
	g.drain(1)
	g.line("log(\"__END__\")")
	body := qualify(g.sb.String())
	src := "import C0 from 0x1\ntransaction {\n    prepare(acct: auth(Storage, Capabilities) &Account) {\n" + body + "    }\n}\n"
	return &Program{Source: src, Features: g.Features, Tx: true}
}

// typed wraps an expression in a static cast to its own type, so that an enclosing
// expected type (e.g. AnyStruct of log's parameter) is not propagated into it.
func (g *Gen) typed(t *Type, depth int) string {
	return "(" + g.expr(t, depth) + " as " + t.Src() + ")"
}

func (g *Gen) anyOf(t *Type, depth int) string {
	return "(" + g.typed(t, depth) + " as AnyStruct)"
}

// memberOrType reads a field of a resource of a concrete type, or only its run-time type
// when it is statically an AnyResource.
func memberOrType(name string, t *Type) string {
	if t.K == KRes && t.Name == "AnyResource" {
		return name + ".getType().identifier"
	}
	return name + ".n"
}
