#!/bin/bash
# like /verif/tools/muttest.sh, but the check itself runs under an address-space limit (ulimit -v, KiB) so that a
# mutation that removes memory metering cannot exhaust the machine:  mutlim.sh <ID> <patch> <ulimit-v-KiB> [tier]
set -u
ID="$1"; PATCH="$(readlink -f "$2")"; LIM="$3"; TIER="${4:-quick}"
export GOFLAGS=-mod=mod GOPROXY=off
unset GOTOOLCHAIN GOSUMDB 2>/dev/null || true
V=/verif
GROUP=$(awk -v id="$ID" '$1==id {print $2}' $V/harness/groups.txt)
S=$(mktemp -d /tmp/mut-$ID-XXXXXX)
trap 'rm -rf "$S"' EXIT
mkdir -p $S/repo $S/out
rsync -a --exclude .git /repo/ $S/repo/
(cd $S/repo && patch -p1 --no-backup-if-mismatch < "$PATCH" > $S/patch.log 2>&1) || { echo "patch does not apply"; cat $S/patch.log; exit 3; }
cp $V/harness/go.mod $S/go.mod; cp $V/harness/go.sum $S/go.sum
sed -i "s#=> /repo#=> $S/repo#" $S/go.mod
(cd $V/harness && go build -modfile=$S/go.mod -tags verif -o $S/bin ./cmd/vcheck-$GROUP) > $S/build.log 2>&1 || { echo "build failed"; head -20 $S/build.log; exit 4; }
cp $V/known_findings.json $S/out/ 2>/dev/null
( ulimit -v $LIM; VERIF_DIR=$S/out $S/bin -prop "$ID" -tier "$TIER" )
RC=$?
echo "MUTTEST: property=$ID exit=$RC"
exit $RC
