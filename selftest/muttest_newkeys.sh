#!/bin/bash
# selftest/muttest_newkeys.sh <ID> <patch.diff> [quick|thorough]
# Like tools/muttest.sh, but the keys already observed on the unchanged tree (selftest/<ID>/baseline_keys_*.txt)
# are entered as known findings of the scratch run, so that every VIOLATION line printed is a key that
# only the mutated tree produces. Exit code 1 = the monitor fired on something new.
set -u
ID="$1"; PATCH="$(readlink -f "$2")"; TIER="${3:-quick}"
export GOFLAGS=-mod=mod GOPROXY=off
unset GOTOOLCHAIN GOSUMDB 2>/dev/null || true
V=/verif
GROUP=$(awk -v id="$ID" '$1==id {print $2}' $V/harness/groups.txt)
S=$(mktemp -d /tmp/mutnk-$ID-XXXXXX)
trap 'rm -rf "$S"' EXIT
mkdir -p $S/repo $S/out
rsync -a --exclude .git /repo/ $S/repo/
(cd $S/repo && patch -p1 --no-backup-if-mismatch < "$PATCH" > $S/patch.log 2>&1) || { echo "patch does not apply"; cat $S/patch.log; exit 3; }
cp $V/harness/go.mod $S/go.mod; cp $V/harness/go.sum $S/go.sum
sed -i "s#=> /repo#=> $S/repo#" $S/go.mod
(cd $V/harness && go build -modfile=$S/go.mod -tags verif -o $S/bin ./cmd/vcheck-$GROUP) > $S/build.log 2>&1 || { echo "build failed"; head -20 $S/build.log; exit 4; }
cat $V/selftest/$ID/baseline_keys_*.txt | sort -u | jq -R -s --arg id "$ID" '{findings: (split("\n") | map(select(length>0)) | map({property:$id, key:., what:"observed on the unchanged tree"})), fixed: []}' > $S/out/known_findings.json
VERIF_DIR=$S/out $S/bin -prop "$ID" -tier "$TIER" | grep -v '^KNOWN-FINDING\|^NOTE:' | cut -c1-400
RC=${PIPESTATUS[0]}
echo "MUTTEST-NEWKEYS: property=$ID patch=$(basename $PATCH) exit=$RC"
exit $RC
