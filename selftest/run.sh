#!/bin/bash
# selftest/run.sh [ID ...]  — proves that the monitors fire: applies every break-the-property patch under
# /verif/selftest/<ID>/*.diff and every seeded change under /verif/seeded/*/patch.diff (property from meta.json)
# to a scratch copy of /repo and runs the property's quick check against it (tools/muttest.sh).
# Writes selftest/RESULTS.tsv: id, patch, exit code (1 = caught), seconds.
cd "$(dirname "$0")/.."
OUT=selftest/RESULTS.tsv
: > "$OUT.tmp"
want=" $* "
run() { # id patch tier
  local id="$1" patch="$2" tier="${3:-quick}"
  if [ "$want" != "  " ] && [[ "$want" != *" $id "* ]]; then return; fi
  local t0=$(date +%s)
  tools/muttest.sh "$id" "$patch" "$tier" > /tmp/selftest-$$.log 2>&1
  local rc=$?
  local t1=$(date +%s)
  local verdict="MISSED"
  [ $rc -eq 1 ] && verdict="CAUGHT"
  [ $rc -eq 2 ] && verdict="INCONCLUSIVE"
  [ $rc -ge 3 ] && verdict="UNUSABLE(rc=$rc)"
  printf "%s\t%s\t%s\t%s\t%ss\n" "$id" "$patch" "$verdict" "$(grep -m1 'key=' /tmp/selftest-$$.log | cut -c1-120)" "$((t1-t0))" | tee -a "$OUT.tmp"
  rm -f /tmp/selftest-$$.log
}
for d in selftest/C*/; do
  id=$(basename "$d")
  for p in "$d"*.diff; do [ -f "$p" ] && run "$id" "$p"; done
done
for d in seeded/*/; do
  [ -f "$d/meta.json" ] || continue
  id=$(jq -r .property "$d/meta.json")
  tier=$(jq -r '.tier // "quick"' "$d/meta.json")
  [ -f "$d/patch.diff" ] && run "$id" "$d/patch.diff" "$tier"
done
mv "$OUT.tmp" "$OUT"; tools/muttest.sh --clean
